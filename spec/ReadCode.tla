------------------------------ MODULE ReadCode ------------------------------
(***************************************************************************)
(* C06: what a generated read-code snippet denotes, per language.          *)
(* A snippet is lowered by the harness front end (harness/readcode_fe.py)  *)
(* to a read plan                                                          *)
(*   [lang, typetok, endtok, nread, readdims, reshape, post, skip,         *)
(*    offsets, ncolons]      (<<-1>> = absent, nread = -2: to end of file) *)
(* This module holds the meaning of the tokens of each language (element   *)
(* kind and size, byte order, axis order, which dimensions a language can  *)
(* represent) as transcribed from the languages' documentation, and        *)
(* Correct(plan, stored): the plan reads exactly the stored array, with    *)
(* axes as stored for row-major languages and reversed for column-major.   *)
(* Offered(lang, numtype, ndim) is the documented compatibility table      *)
(* (docs/readcode.rst).                                                    *)
(***************************************************************************)
EXTENDS Integers, Sequences, FiniteSets

Unknown == [kind |-> "unknown", bytes |-> 0]
T(k, b) == [kind |-> k, bytes |-> b]

NumTypes == {"int8", "int16", "int32", "int64", "uint8", "uint16", "uint32", "uint64",
             "float16", "float32", "float64", "complex64", "complex128"}
TypeOf(nt) ==
  CASE nt = "int8" -> T("int", 1) [] nt = "int16" -> T("int", 2) [] nt = "int32" -> T("int", 4)
    [] nt = "int64" -> T("int", 8) [] nt = "uint8" -> T("uint", 1) [] nt = "uint16" -> T("uint", 2)
    [] nt = "uint32" -> T("uint", 4) [] nt = "uint64" -> T("uint", 8) [] nt = "float16" -> T("float", 2)
    [] nt = "float32" -> T("float", 4) [] nt = "float64" -> T("float", 8)
    [] nt = "complex64" -> T("complex", 8) [] nt = "complex128" -> T("complex", 16)

Lookup(tab, tok) == IF tok \in DOMAIN tab THEN tab[tok] ELSE Unknown

RTypes == [x \in {"integer():1:TRUE", "integer():1:FALSE", "integer():2:TRUE", "integer():2:FALSE",
                  "integer():4:TRUE", "integer():8:TRUE", "numeric():4:TRUE", "numeric():8:TRUE",
                  "complex():16:TRUE"} |->
   CASE x = "integer():1:TRUE" -> T("int", 1) [] x = "integer():1:FALSE" -> T("uint", 1)
     [] x = "integer():2:TRUE" -> T("int", 2) [] x = "integer():2:FALSE" -> T("uint", 2)
     [] x = "integer():4:TRUE" -> T("int", 4) [] x = "integer():8:TRUE" -> T("int", 8)
     [] x = "numeric():4:TRUE" -> T("float", 4) [] x = "numeric():8:TRUE" -> T("float", 8)
     [] x = "complex():16:TRUE" -> T("complex", 16)]
MatlabTypes == [x \in {"int8", "int16", "int32", "int64", "uint8", "uint16", "uint32", "uint64",
                       "float32", "float64", "single", "double"} |->
   CASE x = "int8" -> T("int", 1) [] x = "int16" -> T("int", 2) [] x = "int32" -> T("int", 4)
     [] x = "int64" -> T("int", 8) [] x = "uint8" -> T("uint", 1) [] x = "uint16" -> T("uint", 2)
     [] x = "uint32" -> T("uint", 4) [] x = "uint64" -> T("uint", 8)
     [] x \in {"float32", "single"} -> T("float", 4) [] x \in {"float64", "double"} -> T("float", 8)]
ScilabTypes == [x \in {"mgeti:c", "mgeti:uc", "mgeti:s", "mgeti:us", "mgeti:i", "mgeti:ui", "mgeti:l", "mgeti:ul",
                       "mget:f", "mget:d"} |->
   CASE x = "mgeti:c" -> T("int", 1) [] x = "mgeti:uc" -> T("uint", 1) [] x = "mgeti:s" -> T("int", 2)
     [] x = "mgeti:us" -> T("uint", 2) [] x = "mgeti:i" -> T("int", 4) [] x = "mgeti:ui" -> T("uint", 4)
     [] x = "mgeti:l" -> T("int", 8) [] x = "mgeti:ul" -> T("uint", 8)
     [] x = "mget:f" -> T("float", 4) [] x = "mget:d" -> T("float", 8)]
JuliaTypes == [x \in {"Int8", "Int16", "Int32", "Int64", "UInt8", "UInt16", "UInt32", "UInt64", "Float16",
                      "Float32", "Float64", "Complex{Float32}", "Complex{Float64}", "ComplexF32", "ComplexF64"} |->
   CASE x = "Int8" -> T("int", 1) [] x = "Int16" -> T("int", 2) [] x = "Int32" -> T("int", 4)
     [] x = "Int64" -> T("int", 8) [] x = "UInt8" -> T("uint", 1) [] x = "UInt16" -> T("uint", 2)
     [] x = "UInt32" -> T("uint", 4) [] x = "UInt64" -> T("uint", 8) [] x = "Float16" -> T("float", 2)
     [] x = "Float32" -> T("float", 4) [] x = "Float64" -> T("float", 8)
     [] x \in {"Complex{Float32}", "ComplexF32"} -> T("complex", 8)
     [] x \in {"Complex{Float64}", "ComplexF64"} -> T("complex", 16)]
IdlTypes == [x \in {"1", "2", "3", "4", "5", "6", "9", "12", "13", "14", "15"} |->
   CASE x = "1" -> T("uint", 1) [] x = "2" -> T("int", 2) [] x = "3" -> T("int", 4) [] x = "4" -> T("float", 4)
     [] x = "5" -> T("float", 8) [] x = "6" -> T("complex", 8) [] x = "9" -> T("complex", 16)
     [] x = "12" -> T("uint", 2) [] x = "13" -> T("uint", 4) [] x = "14" -> T("int", 8) [] x = "15" -> T("uint", 8)]
MmaTypes == [x \in {"Integer8", "Integer16", "Integer32", "Integer64", "UnsignedInteger8", "UnsignedInteger16",
                    "UnsignedInteger32", "UnsignedInteger64", "Real32", "Real64", "Complex64", "Complex128"} |->
   CASE x = "Integer8" -> T("int", 1) [] x = "Integer16" -> T("int", 2) [] x = "Integer32" -> T("int", 4)
     [] x = "Integer64" -> T("int", 8) [] x = "UnsignedInteger8" -> T("uint", 1)
     [] x = "UnsignedInteger16" -> T("uint", 2) [] x = "UnsignedInteger32" -> T("uint", 4)
     [] x = "UnsignedInteger64" -> T("uint", 8) [] x = "Real32" -> T("float", 4) [] x = "Real64" -> T("float", 8)
     [] x = "Complex64" -> T("complex", 8) [] x = "Complex128" -> T("complex", 16)]
MapleTypes == [x \in {"integer[1]", "integer[2]", "integer[4]", "integer[8]", "float[4]", "float[8]"} |->
   CASE x = "integer[1]" -> T("int", 1) [] x = "integer[2]" -> T("int", 2) [] x = "integer[4]" -> T("int", 4)
     [] x = "integer[8]" -> T("int", 8) [] x = "float[4]" -> T("float", 4) [] x = "float[8]" -> T("float", 8)]

TypeMeaning(lang, tok) ==
  CASE lang = "R" -> Lookup(RTypes, tok) [] lang = "matlab" -> Lookup(MatlabTypes, tok)
    [] lang = "scilab" -> Lookup(ScilabTypes, tok) [] lang = "julia" -> Lookup(JuliaTypes, tok)
    [] lang = "idl" -> Lookup(IdlTypes, tok) [] lang = "mathematica" -> Lookup(MmaTypes, tok)
    [] lang = "maple" -> Lookup(MapleTypes, tok) [] OTHER -> Unknown

EndianMeaning(lang, tok) ==
  CASE lang \in {"R", "idl", "maple"} -> (IF tok \in {"little", "big"} THEN tok ELSE "unknown")
    [] lang = "matlab" -> (IF tok = "ieee-le" THEN "little" ELSE IF tok = "ieee-be" THEN "big" ELSE "unknown")
    [] lang = "scilab" -> (IF tok = "l" THEN "little" ELSE IF tok = "b" THEN "big" ELSE "unknown")
    [] lang = "julia" -> (IF tok = "ltoh" THEN "little" ELSE IF tok = "ntoh" THEN "big" ELSE "unknown")
    [] lang = "mathematica" -> (IF tok = "-1" THEN "little" ELSE IF tok = "+1" THEN "big" ELSE "unknown")
    [] OTHER -> "unknown"

AxisOrder(lang) == IF lang = "mathematica" THEN "row" ELSE "col"
(* languages whose arrays have no trailing dimensions of length 1 *)
DropsTrailingOnes(lang) == lang \in {"matlab", "scilab", "idl"}

RECURSIVE Prod(_)
Prod(s) == IF s = <<>> THEN 1 ELSE Head(s) * Prod(Tail(s))
Rev(s) == [k \in 1..Len(s) |-> s[Len(s) + 1 - k]]
RECURSIVE StripTrail(_)
StripTrail(s) == IF Len(s) > 1 /\ s[Len(s)] = 1 THEN StripTrail(SubSeq(s, 1, Len(s) - 1)) ELSE s
RECURSIVE NoOnes(_)
NoOnes(s) == IF s = <<>> THEN <<>> ELSE (IF Head(s) = 1 THEN <<>> ELSE <<Head(s)>>) \o NoOnes(Tail(s))
Absent == <<-1>>

(* dimensions of the value in the language; a read to the end of the file yields a vector of all n elements *)
LDims(p, n) == IF p.reshape # Absent THEN p.reshape ELSE IF p.readdims # Absent THEN p.readdims
               ELSE IF p.nread = -2 THEN <<n>> ELSE <<p.nread>>

(* ---- the clauses of correctness; st = [numtype, bo, shape] ---- *)
ElemOK(p, st) ==
  LET want == TypeOf(st.numtype) m == TypeMeaning(p.lang, p.typetok) IN
  CASE p.post = "none" -> m = want
    [] p.post = "half" -> want = T("float", 2) /\ m = T("uint", 2)           \* uint16 bits + half.typecast
    [] p.post = "complex_parts" -> want.kind = "complex" /\ m = T("float", want.bytes \div 2)
    [] p.post = "complex_firstaxis" -> want.kind = "complex" /\ m = T("float", want.bytes \div 2)
    [] OTHER -> FALSE
EndianOK(p, st) == EndianMeaning(p.lang, p.endtok) = st.bo \/ (TypeOf(st.numtype).bytes = 1 /\ EndianMeaning(p.lang, p.endtok) # "unknown")
CountOK(p, st) ==
  LET n == Prod(st.shape) IN
  CASE p.nread = -2 -> TRUE
    [] p.post = "complex_firstaxis" -> p.nread = 2 * n
    [] OTHER -> p.nread = n
(* real and imaginary parts interleaved: part j of element e sits at offsets[j] + e * (bytes + skip) *)
ComplexLayoutOK(p, st) ==
  p.post = "complex_parts" =>
     LET b == TypeOf(st.numtype).bytes \div 2 IN p.skip = b /\ p.offsets = <<0, b>>
DimsOK(p, st) ==
  LET ld == LDims(p, Prod(st.shape)) want == IF AxisOrder(p.lang) = "col" THEN Rev(st.shape) ELSE st.shape IN
  IF p.post = "complex_firstaxis"
  THEN /\ ld = <<2>> \o Rev(st.shape) /\ p.ncolons = Len(st.shape)
       (* a(1,:,..,:) has dimensions <<1>> \o Rev(shape); squeeze() removes EVERY singleton dimension of it, *)
       (* matrix(.., dims) gives it the stated ones; the result must have the reversed stored shape (a      *)
       (* vector may come back as a row or a column)                                                        *)
       /\ LET final == IF p.slicefix = "squeeze" THEN NoOnes(Rev(st.shape)) ELSE p.finaldims IN
            \/ Len(st.shape) = 1
            \/ StripTrail(final) = StripTrail(Rev(st.shape))
  ELSE /\ (IF DropsTrailingOnes(p.lang) THEN StripTrail(ld) = StripTrail(want) ELSE ld = want)
       /\ ((p.reshape # Absent /\ p.readdims # Absent) => Prod(p.reshape) = Prod(p.readdims))
(* element with C index c (0-based) is the element with language index Rev(c): in a   *)
(* column-major array of dims ld that is sequential position sum_j i_j * prod_{m<j} ld_m *)
IdxSet(shape) == LET RECURSIVE F(_) F(s) == IF s = <<>> THEN {<<>>} ELSE {<<i>> \o r : i \in 0..(Head(s) - 1), r \in F(Tail(s))} IN F(shape)
COffset(shape, c) == LET RECURSIVE G(_) G(k) == IF k > Len(shape) THEN 0 ELSE c[k] * Prod(SubSeq(shape, k + 1, Len(shape))) + G(k + 1) IN G(1)
ColOffset(ld, i) == LET RECURSIVE G(_) G(k) == IF k > Len(ld) THEN 0 ELSE i[k] * Prod(SubSeq(ld, 1, k - 1)) + G(k + 1) IN G(1)
OffsetsOK(p, st) ==
  p.post = "complex_firstaxis" \/
  LET ld == IF AxisOrder(p.lang) = "col" THEN Rev(st.shape) ELSE st.shape IN
  \A c \in IdxSet(st.shape) :
     IF AxisOrder(p.lang) = "col" THEN ColOffset(ld, Rev(c)) = COffset(st.shape, c)
     ELSE COffset(ld, c) = COffset(st.shape, c)

FailClause(p, st) ==
  IF ~ElemOK(p, st) THEN "type" ELSE IF ~EndianOK(p, st) THEN "endian" ELSE IF ~CountOK(p, st) THEN "count"
  ELSE IF ~ComplexLayoutOK(p, st) THEN "complexlayout" ELSE IF ~DimsOK(p, st) THEN "dims"
  ELSE IF ~OffsetsOK(p, st) THEN "offsets" ELSE "ok"
Correct(p, st) == FailClause(p, st) = "ok"

(***************************************************************************)
(* The documented compatibility table (docs/readcode.rst)                  *)
(***************************************************************************)
Langs == {"darr", "idl", "julia_ver0", "julia_ver1", "mathematica", "matlab", "maple", "numpy", "numpymemmap",
          "python", "R", "scilab"}
OfferedType(lang, nt) ==
  CASE lang \in {"darr", "numpy", "numpymemmap", "julia_ver0", "julia_ver1", "matlab"} -> TRUE
    [] lang = "idl" -> nt \notin {"int8", "float16"}
    [] lang = "maple" -> nt \in {"int8", "int16", "int32", "int64", "float32", "float64"}
    [] lang = "mathematica" -> nt # "float16"
    [] lang = "python" -> nt # "float16"
    [] lang = "R" -> nt \in {"int8", "int16", "int32", "uint8", "uint16", "float32", "float64", "complex128"}
    [] lang = "scilab" -> nt # "float16"
Offered(lang, nt, ndim) == OfferedType(lang, nt) /\ (lang = "python" => ndim = 1)
OfferedRows == {[lang |-> l, numtype |-> nt, ndim |-> d, offered |-> Offered(l, nt, d)] :
                  l \in Langs, nt \in NumTypes, d \in 1..4}
=============================================================================
