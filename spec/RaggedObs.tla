----------------------------- MODULE RaggedObs -----------------------------
(* Read-side observations of a ragged array of n subarrays: which model    *)
(* positions ra[k] and iter_arrays(start, end, step) denote (C04).         *)
EXTENDS Integers, Sequences, PySlice

GetIdx(n, k) == NormIndex(k, n)

(* iter_arrays(startindex, endindex, stepsize): range(start, end or n, step) *)
(* mapped through ra[i]; IndexError as soon as one i is out of range          *)
IterIdx(n, s, e, st) ==
  LET r == RangeSeq(s, IF e = NoneV THEN n ELSE e, st)
      p == [k \in 1..Len(r) |-> NormIndex(r[k], n)]
  IN IF \E k \in 1..Len(p) : p[k] = IndexErr THEN <<IndexErr>> ELSE p

IterRows(N, Lo, Hi, Steps) ==
  {[n |-> n, s |-> s, e |-> e, st |-> st, res |-> IterIdx(n, s, e, st)] :
      n \in 0..N, s \in Lo..Hi, e \in (Lo..Hi) \cup {NoneV}, st \in Steps}
GetRows(N) == {[n |-> n, k |-> k, res |-> GetIdx(n, k)] : n \in 0..N, k \in (-N - 2)..(N + 1)}
=============================================================================
