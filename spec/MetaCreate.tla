----------------------------- MODULE MetaCreate -----------------------------
(* C13: metadata.json exists exactly when the metadata are non-empty - at    *)
(* creation time: every creating function x what is given as metadata x what *)
(* occupied the path before (overwrite=True).                                *)
EXTENDS Integers, FiniteSets
Creators == {"asarray", "create_array", "asraggedarray", "create_raggedarray", "copy_array", "copy_ragged"}
Given == {"none", "empty", "some"}          \* metadata=None / {} / a non-empty dict (for copy: what the source has)
Occupant == {"free", "hasmeta", "nometa"}   \* nothing at the path / an array with / without metadata (overwrite=True)
Rows == {[creator |-> c, given |-> g, occupant |-> o,
          fileexists |-> (g = "some"), content |-> (IF g = "some" THEN "given" ELSE "empty")] :
            c \in Creators, g \in Given, o \in Occupant}
=============================================================================
