------------------------------- MODULE Ragged -------------------------------
(***************************************************************************)
(* Step-level model of one darr.RaggedArray directory and one live handle. *)
(*                                                                         *)
(* values/   vrows, vtail, vdescr, vreadme   an Array of value rows        *)
(* indices/  irows, itail, idescr, ireadme   an Array of <<start, end>>    *)
(* top       tdescr [len, size], treadme (n + listed subarray lengths)     *)
(* handle    mode, vlen, ilen (cached first-axis lengths of the two        *)
(*           sub-array handles), mmI (length of the cached index memmap    *)
(*           while open_arrays() is active, else NoMap), uctx (the user    *)
(*           holds an open_arrays() context or a suspended iter_arrays      *)
(*           generator - "no", or the access mode they were opened with -  *)
(*           generator: the maps stay open, with the lengths they were     *)
(*           opened for, across public calls)                              *)
(* pc        program point; ghost ref \in Seq(Seq(RowIds)); out            *)
(*                                                                         *)
(* Code map: RA_Call/RA_* = RaggedArray.append / iterappend / _append;     *)
(* UL_* = Array._update_len on the sub-array named in pc.arr;              *)
(* RT_* = truncate_raggedarray; TD_* / TR_* = _update_arraydescr /         *)
(* _update_readmetxt of the ragged array.                                  *)
(***************************************************************************)
EXTENDS Integers, Sequences, FiniteSets, TLC, SequencesExt, PySlice

CONSTANTS RowIds, MaxSub, MaxItemLen, MaxItems, TruncArgs, Ops, Faults, Crashes,
          InitRefs, InitModes, ListFirst, IdxMax

VARIABLES vrows, vtail, vdescr, vreadme, irows, itail, idescr, ireadme,
          tdescr, treadme, mode, vlen, ilen, mmI, uctx, pc, ref, out

vdisk == <<vrows, vtail, vdescr, vreadme>>
idisk == <<irows, itail, idescr, ireadme>>
tdisk == <<tdescr, treadme>>
disk == <<vrows, vtail, vdescr, vreadme, irows, itail, idescr, ireadme, tdescr, treadme>>
vars == <<vrows, vtail, vdescr, vreadme, irows, itail, idescr, ireadme, tdescr, treadme,
          mode, vlen, ilen, mmI, uctx, pc, ref, out>>

Idle == [op |-> "idle"]
NoMap == -1
InCtx == uctx # "no"
DOk(n) == [k |-> "ok", len |-> n]
DTorn == [k |-> "torn"]
TOk(n, sz) == [k |-> "ok", len |-> n, size |-> sz]
RTorn == [k |-> "torn"]
RaisesV == <<<<-1>>>>

Items == UNION {[1..n -> RowIds] : n \in 0..MaxItemLen}
ItemLists == UNION {[1..n -> Items] : n \in 0..MaxItems}
RECURSIVE Flat(_)
Flat(cs) == IF cs = <<>> THEN <<>> ELSE Head(cs) \o Flat(Tail(cs))
RECURSIVE IndexRows(_, _)
IndexRows(items, off) == IF items = <<>> THEN <<>>
                         ELSE <<<<off, off + Len(Head(items))>>>> \o IndexRows(Tail(items), off + Len(Head(items)))

NoFault == [kind |-> "none"]
FaultPlans(cs) ==
  IF ~Faults THEN {NoFault} ELSE
  {NoFault}
  \cup {[kind |-> kd, at |-> Len(cs) + 1] : kd \in {"raise", "atom", "rank", "conv"}}
  \cup (IF cs # <<>> THEN {[kind |-> "iwrite", at |-> Len(cs), b |-> b] : b \in 0..1}
        ELSE {})
  \cup (IF cs # <<>> /\ Len(cs[Len(cs)]) > 0
        THEN {[kind |-> "vwrite", at |-> Len(cs), k |-> k, b |-> b] :
                 k \in 0..(Len(cs[Len(cs)]) - 1), b \in 0..1}
        ELSE {})

(***************************************************************************)
(* Opening: both sub-arrays must pass Array's open check                   *)
(***************************************************************************)
VOpens == vdescr.k = "ok" /\ Len(vrows) = vdescr.len /\ vtail = 0
IOpens == idescr.k = "ok" /\ Len(irows) = idescr.len /\ itail = 0
(* the list of subarrays a fresh handle shows (RaisesV when it cannot) *)
SubOf(vr, ir) == [k \in 1..Len(ir) |->
                    IF ir[k][1] <= ir[k][2] /\ ir[k][2] <= Len(vr)
                    THEN SubSeq(vr, ir[k][1] + 1, ir[k][2]) ELSE <<-2>>]
OpenOutcome == IF VOpens /\ IOpens THEN SubOf(vrows, irows) ELSE RaisesV

(* index rows as the live handle reads them: through the cached map if any *)
Visible == IF mmI = NoMap THEN SubSeq(irows, 1, idescr.len) ELSE SubSeq(irows, 1, mmI)
(* README listing: first ListFirst subarrays and the last one; n = len(ra) = ilen *)
Listed(vis, n) ==
  LET e == IF n < ListFirst THEN n ELSE ListFirst
      head == [k \in 1..(IF e <= Len(vis) THEN e ELSE Len(vis)) |-> <<k - 1, vis[k][2] - vis[k][1]>>]
  IN IF n > ListFirst /\ Len(vis) > 0
     THEN head \o <<<<n - 1, vis[Len(vis)][2] - vis[Len(vis)][1]>>>> ELSE head
(* inctx (ghost): the text was written while the user held the maps open *)
TStamp == [k |-> "ok", n |-> ilen, listed |-> Listed(Visible, ilen), inctx |-> InCtx]
CurTStamp == [k |-> "ok", n |-> Len(irows),
              listed |-> Listed(irows, Len(irows)), inctx |-> FALSE]
NoGhost(t) == IF t.k = "ok" THEN [k |-> "ok", n |-> t.n, listed |-> t.listed] ELSE t

Init == /\ \E r \in InitRefs :
             /\ ref = r /\ vrows = Flat(r) /\ irows = IndexRows(r, 0)
             /\ vlen = Len(Flat(r)) /\ ilen = Len(r)
             /\ vdescr = DOk(Len(Flat(r))) /\ idescr = DOk(Len(r))
             /\ vreadme = DOk(Len(Flat(r))) /\ ireadme = DOk(Len(r))
             /\ tdescr = TOk(Len(r), Len(Flat(r)))
             /\ treadme = [k |-> "ok", n |-> Len(r), listed |-> Listed(IndexRows(r, 0), Len(r)), inctx |-> FALSE]
        /\ vtail = 0 /\ itail = 0 /\ mode \in InitModes /\ mmI = NoMap /\ uctx = "no"
        /\ pc = Idle /\ out = "ok"

Return(o) == pc' = Idle /\ out' = o
Goto(a) == pc' = [pc EXCEPT !.at = a]
At(op, a) == pc.op = op /\ pc.at = a
Busy == pc.op \notin {"idle", "crashed"}

(***************************************************************************)
(* Array._update_len on sub-array pc.arr ("v" or "i") with pc.inc           *)
(***************************************************************************)
UL_Cache == /\ Busy /\ pc.at = "ul_cache"
            /\ IF pc.arr = "v" THEN vlen' = vlen + pc.inc /\ UNCHANGED ilen
               ELSE ilen' = ilen + pc.inc /\ UNCHANGED vlen
            /\ Goto("ul_jt") /\ UNCHANGED <<disk, mode, mmI, uctx, ref, out>>
UL_JsonTrunc == /\ Busy /\ pc.at = "ul_jt"
                /\ IF pc.arr = "v" THEN vdescr' = DTorn /\ UNCHANGED idescr
                   ELSE idescr' = DTorn /\ UNCHANGED vdescr
                /\ Goto("ul_jw")
                /\ UNCHANGED <<vrows, vtail, vreadme, irows, itail, ireadme, tdisk, mode, vlen, ilen, mmI, uctx, ref, out>>
UL_JsonWrite == /\ Busy /\ pc.at = "ul_jw"
                /\ IF pc.arr = "v" THEN vdescr' = DOk(vlen) /\ UNCHANGED idescr
                   ELSE idescr' = DOk(ilen) /\ UNCHANGED vdescr
                /\ Goto("ul_rt")
                /\ UNCHANGED <<vrows, vtail, vreadme, irows, itail, ireadme, tdisk, mode, vlen, ilen, mmI, uctx, ref, out>>
UL_ReadmeTrunc == /\ Busy /\ pc.at = "ul_rt"
                  /\ IF pc.arr = "v" THEN vreadme' = DTorn /\ UNCHANGED ireadme
                     ELSE ireadme' = DTorn /\ UNCHANGED vreadme
                  /\ Goto("ul_rw")
                  /\ UNCHANGED <<vrows, vtail, vdescr, irows, itail, idescr, tdisk, mode, vlen, ilen, mmI, uctx, ref, out>>
UL_ReadmeWrite == /\ Busy /\ pc.at = "ul_rw"
                  /\ IF pc.arr = "v" THEN vreadme' = DOk(vdescr.len) /\ UNCHANGED ireadme
                     ELSE ireadme' = DOk(idescr.len) /\ UNCHANGED vreadme
                  /\ Goto(pc.ret)
                  /\ UNCHANGED <<vrows, vtail, vdescr, irows, itail, idescr, tdisk, mode, vlen, ilen, mmI, uctx, ref, out>>
EnterUL(a, inc, retat) == pc' = [pc EXCEPT !.at = "ul_cache", !.arr = a, !.inc = inc, !.ret = retat]

(* top-level descriptor and README *)
TD_Trunc == /\ Busy /\ pc.at = "td_t" /\ tdescr' = DTorn /\ Goto("td_w")
            /\ UNCHANGED <<vdisk, idisk, treadme, mode, vlen, ilen, mmI, uctx, ref, out>>
TD_Write == /\ Busy /\ pc.at = "td_w" /\ tdescr' = TOk(ilen, vlen) /\ Goto(pc.tdret)
            /\ UNCHANGED <<vdisk, idisk, treadme, mode, vlen, ilen, mmI, uctx, ref, out>>
TR_Trunc == /\ Busy /\ pc.at = "tr_t" /\ treadme' = RTorn /\ Goto("tr_w")
            /\ UNCHANGED <<vdisk, idisk, tdescr, mode, vlen, ilen, mmI, uctx, ref, out>>
TR_Write == /\ Busy /\ pc.at = "tr_w" /\ treadme' = TStamp /\ Goto(pc.trret)
            /\ UNCHANGED <<vdisk, idisk, tdescr, mode, vlen, ilen, mmI, uctx, ref, out>>

(***************************************************************************)
(* append / iterappend                                                     *)
(***************************************************************************)
RA_Call(cs, f, via) ==
  /\ pc = Idle /\ "append" \in Ops /\ via \in {"append", "iterappend"}
  /\ via = "append" => (Len(cs) = 1 /\ f.kind \in {"none", "iwrite", "vwrite"})
  /\ Len(ref) + Len(cs) <= MaxSub
  /\ pc' = [op |-> "ra", at |-> "checks", cs |-> cs, f |-> f, via |-> via, idx |-> 1, vdone |-> 0, idone |-> 0,
            failed |-> FALSE, arr |-> "v", inc |-> 0, ret |-> "", tdret |-> "", trret |-> "",
            prev |-> vrows, prei |-> irows,
            legit |-> {ref \o SubSeq(cs, 1, j) : j \in 0..Len(cs)}]
  /\ UNCHANGED <<disk, mode, vlen, ilen, mmI, uctx, ref, out>>
RA_CallBadAppend(kd) ==
  /\ pc = Idle /\ "append" \in Ops /\ Faults /\ kd \in {"atom", "rank", "conv"}
  /\ pc' = [op |-> "ra", at |-> "checks", cs |-> <<>>, f |-> [kind |-> kd, at |-> 1], via |-> "append", idx |-> 1,
            vdone |-> 0, idone |-> 0, failed |-> FALSE, arr |-> "v", inc |-> 0, ret |-> "", tdret |-> "",
            trret |-> "", prev |-> vrows, prei |-> irows, legit |-> {ref}]
  /\ UNCHANGED <<disk, mode, vlen, ilen, mmI, uctx, ref, out>>

(* accessmode check, then open_arrays(): both memory maps are cached *)
RA_Checks == /\ At("ra", "checks")
             /\ IF mode # "r+" THEN Return("OSError") /\ UNCHANGED mmI
                (* the user's context opened files and maps read-only: the first write is refused *)
                ELSE IF uctx = "r" /\ (pc.cs # <<>> \/ pc.f.kind # "none") THEN Return("Raises") /\ UNCHANGED mmI
                ELSE Goto("next") /\ mmI' = (IF InCtx THEN mmI ELSE idescr.len) /\ out' = out
             /\ UNCHANGED <<disk, mode, vlen, ilen, uctx, ref>>
BadItemHere == pc.f.kind \in {"raise", "atom", "rank", "conv"} /\ pc.f.at = pc.idx
NoMore == pc.idx > Len(pc.cs)
RA_Next == /\ At("ra", "next")
           /\ IF BadItemHere THEN pc' = [pc EXCEPT !.at = "rollback", !.failed = TRUE]
              ELSE IF NoMore THEN Goto("close")
              ELSE Goto("vwrite")
           /\ UNCHANGED <<disk, mode, vlen, ilen, mmI, uctx, ref, out>>
(* values._append: seek end, tofile, flush *)
RA_VWrite == /\ At("ra", "vwrite")
             /\ LET c == pc.cs[pc.idx] IN
                IF pc.f.kind = "vwrite" /\ pc.f.at = pc.idx
                THEN /\ vrows' = vrows \o SubSeq(c, 1, pc.f.k) /\ vtail' = pc.f.b
                     /\ pc' = [pc EXCEPT !.at = "rollback", !.failed = TRUE]
                ELSE /\ vrows' = vrows \o c /\ vtail' = 0 /\ Goto("iwrite")
             /\ UNCHANGED <<vdescr, vreadme, idisk, tdisk, mode, vlen, ilen, mmI, uctx, ref, out>>
(* indices._append([[vlen, vlen + size]]) *)
RA_IWrite == /\ At("ra", "iwrite")
             /\ LET c == pc.cs[pc.idx]
                    s == vlen + pc.vdone
                IN IF s + Len(c) > IdxMax      \* the index does not fit the index type
                   THEN /\ pc' = [pc EXCEPT !.at = "rollback", !.failed = TRUE] /\ UNCHANGED <<irows, itail, ref>>
                   ELSE IF pc.f.kind = "iwrite" /\ pc.f.at = pc.idx
                   THEN /\ itail' = pc.f.b /\ UNCHANGED <<irows, ref>>
                        /\ pc' = [pc EXCEPT !.at = "rollback", !.failed = TRUE]
                   ELSE /\ irows' = irows \o <<<<s, s + Len(c)>>>> /\ itail' = 0
                        /\ ref' = ref \o <<c>>
                        /\ pc' = [pc EXCEPT !.at = "next", !.idx = pc.idx + 1, !.vdone = pc.vdone + Len(c),
                                            !.idone = pc.idone + 1]
             /\ UNCHANGED <<vdisk, idescr, ireadme, tdisk, mode, vlen, ilen, mmI, uctx, out>>
(* except-branch: cut both files back to the completed subarrays *)
RA_RollbackV == /\ At("ra", "rollback")
                /\ vrows' = SubSeq(vrows, 1, vlen + pc.vdone) /\ vtail' = 0 /\ Goto("rollback_i")
                /\ UNCHANGED <<vdescr, vreadme, idisk, tdisk, mode, vlen, ilen, mmI, uctx, ref, out>>
RA_RollbackI == /\ At("ra", "rollback_i")
                /\ irows' = SubSeq(irows, 1, ilen + pc.idone) /\ itail' = 0 /\ Goto("close")
                /\ UNCHANGED <<vdisk, idescr, ireadme, tdisk, mode, vlen, ilen, mmI, uctx, ref, out>>
(* leaving open_arrays(); then lengths, top descriptor, README *)
RA_Close == /\ At("ra", "close") /\ mmI' = (IF InCtx THEN mmI ELSE NoMap)     \* the user's context keeps the maps
            /\ pc' = [pc EXCEPT !.at = "ul_cache", !.arr = "v", !.inc = pc.vdone, !.ret = "ulen_i"]
            /\ UNCHANGED <<disk, mode, vlen, ilen, uctx, ref, out>>
RA_ULenI == /\ At("ra", "ulen_i")
            /\ pc' = [pc EXCEPT !.at = "ul_cache", !.arr = "i", !.inc = pc.idone, !.ret = "td_t", !.tdret = "tr_t",
                                !.trret = "done"]
            /\ UNCHANGED <<disk, mode, vlen, ilen, mmI, uctx, ref, out>>
RA_Done == /\ At("ra", "done") /\ Return(IF pc.failed THEN "AppendDataError" ELSE "ok")
           /\ UNCHANGED <<disk, mode, vlen, ilen, mmI, uctx, ref>>

RA_WriteCrash(k, b) ==
  /\ Crashes /\ pc.op = "ra" /\ pc.at = "vwrite" /\ ~NoMore
  /\ LET c == pc.cs[pc.idx] IN
       /\ 2 * k + b < 2 * Len(c)
       /\ vrows' = vrows \o SubSeq(c, 1, k) /\ vtail' = b
  /\ pc' = [op |-> "crashed", legit |-> pc.legit]
  /\ UNCHANGED <<vdescr, vreadme, idisk, tdisk, mode, vlen, ilen, mmI, uctx, ref, out>>
RA_IWriteCrash ==
  /\ Crashes /\ pc.op = "ra" /\ pc.at = "iwrite" /\ itail' = 1
  /\ pc' = [op |-> "crashed", legit |-> pc.legit]
  /\ UNCHANGED <<vdisk, irows, idescr, ireadme, tdisk, mode, vlen, ilen, mmI, uctx, ref, out>>

(***************************************************************************)
(* truncate_raggedarray(ra, index)                                         *)
(***************************************************************************)
NonInt == 777777
RT_Call(i) ==
  /\ pc = Idle /\ "truncate" \in Ops /\ i \in TruncArgs \cup {NonInt}
  /\ ~InCtx        \* cutting files under open maps is not modelled
  /\ LET nl == IF i = NonInt THEN -1 ELSE TruncLen(i, Len(ref)) IN
     pc' = [op |-> "rt", at |-> "checks", i |-> i, arr |-> "i", inc |-> 0, ret |-> "", tdret |-> "", trret |-> "",
            nl |-> nl,
            legit |-> {ref} \cup (IF 0 <= nl /\ nl < Len(ref) THEN {SubSeq(ref, 1, nl)} ELSE {})]
  /\ UNCHANGED <<disk, mode, vlen, ilen, mmI, uctx, ref, out>>
RT_Checks ==
  /\ At("rt", "checks")
  /\ IF pc.i = NonInt THEN Return("TypeError")
     ELSE IF mode # "r+" THEN Return("OSError")
     ELSE LET nl == TruncLen(pc.i, idescr.len) IN
          IF 0 <= nl /\ nl < ilen THEN pc' = [pc EXCEPT !.at = "i_os", !.nl = nl] /\ out' = out
          ELSE Return("IndexError")
  /\ UNCHANGED <<disk, mode, vlen, ilen, mmI, uctx, ref>>
(* truncate_array(indices, newlen): os.truncate, _update_len *)
RT_IOsTruncate ==
  /\ At("rt", "i_os")
  /\ irows' = SubSeq(irows, 1, pc.nl) /\ itail' = 0
  /\ ref' = SubSeq(ref, 1, pc.nl)
  /\ pc' = [pc EXCEPT !.at = "ul_cache", !.arr = "i", !.inc = pc.nl - ilen, !.ret = "v_pick"]
  /\ UNCHANGED <<vdisk, idescr, ireadme, tdisk, mode, vlen, ilen, mmI, uctx, out>>
(* vi = indices[-1][-1] (0 when empty); values are cut only if that shortens them *)
RT_VPick ==
  /\ At("rt", "v_pick")
  /\ LET vi == IF ilen = 0 THEN 0 ELSE irows[ilen][2] IN
     IF vi < vlen THEN pc' = [pc EXCEPT !.at = "v_os", !.nl = vi]
     ELSE pc' = [pc EXCEPT !.at = "tr_t", !.trret = "td_t", !.tdret = "done"]
  /\ UNCHANGED <<disk, mode, vlen, ilen, mmI, uctx, ref, out>>
RT_VOsTruncate ==
  /\ At("rt", "v_os")
  /\ vrows' = SubSeq(vrows, 1, pc.nl) /\ vtail' = 0
  /\ pc' = [pc EXCEPT !.at = "ul_cache", !.arr = "v", !.inc = pc.nl - vlen, !.ret = "tr_t", !.trret = "td_t",
                      !.tdret = "done"]
  /\ UNCHANGED <<vdescr, vreadme, idisk, tdisk, mode, vlen, ilen, mmI, uctx, ref, out>>
RT_Done == /\ At("rt", "done") /\ Return("ok")
           /\ UNCHANGED <<disk, mode, vlen, ilen, mmI, uctx, ref>>

(***************************************************************************)
(* access mode, reopening                                                  *)
(***************************************************************************)
SetMode(m) == /\ pc = Idle /\ "mode" \in Ops /\ m \in {"r", "r+", "w"}
              /\ IF m = "w" THEN out' = "ValueError" /\ UNCHANGED mode
                 ELSE mode' = m /\ out' = "ok"
              /\ UNCHANGED <<disk, vlen, ilen, mmI, uctx, pc, ref>>
Reopen(m) == /\ pc = Idle /\ "reopen" \in Ops /\ m \in {"r", "r+"} /\ ~InCtx
             /\ mode' = m /\ vlen' = vdescr.len /\ ilen' = idescr.len /\ out' = "ok"
             /\ UNCHANGED <<disk, mmI, uctx, pc, ref>>

(* with ra.open_arrays(): ... / a suspended ra.iter_arrays() generator *)
EnterCtx == /\ pc = Idle /\ "ctx" \in Ops /\ ~InCtx
            /\ uctx' = mode /\ mmI' = ilen /\ out' = "ok"
            /\ UNCHANGED <<disk, mode, vlen, ilen, pc, ref>>
ExitCtx == /\ pc = Idle /\ "ctx" \in Ops /\ InCtx
           /\ uctx' = "no" /\ mmI' = NoMap /\ out' = "ok"
           /\ UNCHANGED <<disk, mode, vlen, ilen, pc, ref>>

Crash == /\ Crashes /\ Busy
         /\ pc' = [op |-> "crashed", legit |-> pc.legit]
         /\ UNCHANGED <<disk, mode, vlen, ilen, mmI, uctx, ref, out>>

Next == \/ \E cs \in ItemLists : \E f \in FaultPlans(cs) : \E via \in {"append", "iterappend"} : RA_Call(cs, f, via)
        \/ \E kd \in {"atom", "rank", "conv"} : RA_CallBadAppend(kd)
        \/ RA_Checks \/ RA_Next \/ RA_VWrite \/ RA_IWrite \/ RA_RollbackV \/ RA_RollbackI
        \/ RA_Close \/ RA_ULenI \/ RA_Done
        \/ \E k \in 0..MaxItemLen, b \in 0..1 : RA_WriteCrash(k, b)
        \/ RA_IWriteCrash
        \/ UL_Cache \/ UL_JsonTrunc \/ UL_JsonWrite \/ UL_ReadmeTrunc \/ UL_ReadmeWrite
        \/ TD_Trunc \/ TD_Write \/ TR_Trunc \/ TR_Write
        \/ \E i \in TruncArgs \cup {NonInt} : RT_Call(i)
        \/ RT_Checks \/ RT_IOsTruncate \/ RT_VPick \/ RT_VOsTruncate \/ RT_Done
        \/ \E m \in {"r", "r+", "w"} : SetMode(m)
        \/ \E m \in {"r", "r+"} : Reopen(m)
        \/ EnterCtx \/ ExitCtx
        \/ Crash
Spec == Init /\ [][Next]_vars

(***************************************************************************)
(* Properties                                                              *)
(***************************************************************************)
Quiescent == pc = Idle
(* C05 *)
Contiguous(ir, n) == /\ (Len(ir) > 0 => ir[1][1] = 0)
                     /\ \A k \in 1..Len(ir) : ir[k][1] <= ir[k][2]
                     /\ \A k \in 2..Len(ir) : ir[k][1] = ir[k - 1][2]
                     /\ (IF Len(ir) > 0 THEN ir[Len(ir)][2] = n ELSE n = 0)
WellFormedRagged == Quiescent =>
   /\ VOpens /\ IOpens /\ Contiguous(irows, Len(vrows))
   /\ tdescr = TOk(Len(irows), Len(vrows))
   /\ vreadme.k = "ok" /\ ireadme.k = "ok"
(* C04 *)
Model_Ragged == Quiescent => /\ OpenOutcome = ref /\ ilen = Len(ref) /\ vlen = Len(Flat(ref))
                             /\ (mmI = NoMap) = ~InCtx
(* C08 *)
(* the ragged README is written through the maps that are open: inside a user context it lists *)
(* what the stale index map shows (StaleReadmeInCtx, outside C08's histories); TLC must find    *)
(* Readme_CurrentAlways violated when "ctx" \in Ops                                             *)
Readme_Current == Quiescent => /\ (treadme.k = "ok" /\ ~treadme.inctx => treadme = CurTStamp)
                               /\ treadme.k = "ok"
                               /\ vreadme = DOk(Len(vrows)) /\ ireadme = DOk(Len(irows))
Readme_CurrentAlways == Quiescent => NoGhost(treadme) = NoGhost(CurTStamp)
(* C10: ref is extended only by completely appended subarrays *)
FailedAppendExact == (Quiescent /\ out = "AppendDataError") => OpenOutcome = ref
ReadOnly == [][(mode = "r" /\ mode' = "r") => UNCHANGED disk]_vars
(* C17 *)
CrashSafe == pc.op = "crashed" => (OpenOutcome = RaisesV \/ OpenOutcome \in pc.legit)
TypeOK == vtail \in 0..1 /\ itail \in 0..1 /\ Len(irows) <= MaxSub + MaxItems
=============================================================================
