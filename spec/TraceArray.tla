----------------------------- MODULE TraceArray -----------------------------
(***************************************************************************)
(* Code -> spec: executions recorded from the real darr.Array are checked  *)
(* to be behaviours of spec/Array.tla.  A trace is                         *)
(*   [init |-> state, events |-> << [op, args..., out, post] ... >>]       *)
(* one event per outermost public call, `post` the projection of the real  *)
(* directory and handle after the call.  Each event takes the spec's Call  *)
(* action with the logged arguments, then the internal steps silently      *)
(* until the spec is quiescent again, where every variable must equal the  *)
(* logged projection (Match, used as a state CONSTRAINT so that only       *)
(* explanations of the trace survive).  Many traces are validated in one   *)
(* TLC run: tid is chosen in Init; register tid holds the furthest event   *)
(* position that could be explained.                                       *)
(***************************************************************************)
EXTENDS Array, Json, IOUtils, TLCExt

CONSTANT Focus      \* which property's observables are compared: "C02", "C03", "C08", "C09", "C13" or "all"

Traces == ndJsonDeserialize(IOEnv.TRACES)

VARIABLES tid, l
tvars == <<rows, tail, descr, readme, meta, mode, mmode, hlen, cx, pc, ref, refmeta, out, ret, gone, tid, l>>

Ev == Traces[tid].events
MetaOf(m) == IF m.k = "ok" THEN MOk(m.d) ELSE [k |-> m.k]
ReadmeOf(r) == IF r.k = "ok" THEN ROk(r.len, r.hasmeta) ELSE [k |-> r.k]
DescrOf(d) == IF d.k = "ok" THEN DOk(d.len) ELSE [k |-> d.k]

TraceInit ==
  /\ tid \in 1..Len(Traces) /\ l = 1
  /\ LET s == Traces[tid].init IN
     /\ rows = s.rows /\ tail = 0 /\ descr = DOk(Len(s.rows)) /\ ref = s.rows /\ hlen = Len(s.rows)
     /\ meta = MetaOf(s.meta) /\ refmeta = (IF s.meta.k = "ok" THEN s.meta.d ELSE NoMeta)
     /\ readme = ROk(Len(s.rows), s.meta.k = "ok") /\ mode = s.mode /\ mmode = s.mode
  /\ pc = Idle /\ out = "ok" /\ ret = 0 /\ gone = FALSE /\ cx = NoCtx

CallOf(e) ==
  CASE e.op = "IA_Call" -> IA_Call(e.cs, e.f, e.via)
    [] e.op = "IA_CallBadAppend" -> IA_CallBadAppend(e.kd)
    [] e.op = "TR_Call" -> TR_Call(e.i)
    [] e.op = "SetItem" -> SetItem(e.i, e.id)
    [] e.op = "SetMode" -> SetMode(e.m)
    [] e.op = "Reopen" -> Reopen(e.m)
    [] e.op = "SetMetaMode" -> SetMetaMode(e.m)
    [] e.op = "Delete" -> Delete
    [] e.op = "M_Call" -> M_Call(e.kd, e.key, e.v)
    [] e.op = "EnterCtx" -> EnterCtx(e.m)
    [] e.op = "ExitCtx" -> ExitCtx

Internal == \/ IA_Checks \/ IA_EmptyNext \/ IA_EmptyWrite \/ IA_EmptyRecover
            \/ IA_Next \/ IA_Write \/ IA_RecStart \/ IA_RecTruncate \/ IA_Done
            \/ UL_Cache \/ UL_JsonTrunc \/ UL_JsonWrite \/ UL_ReadmeTrunc \/ UL_ReadmeWrite
            \/ TR_Checks \/ TR_OsTruncate \/ TR_Done
            \/ M_Checks \/ M_Remove \/ M_Trunc \/ M_Write \/ M_Unlink \/ RM_Trunc \/ RM_Write \/ M_Done

TraceNext ==
  \/ /\ pc = Idle /\ l <= Len(Ev) /\ CallOf(Ev[l]) /\ l' = l + 1 /\ UNCHANGED tid
  \/ /\ pc # Idle /\ Internal /\ UNCHANGED <<tid, l>>
TraceSpec == TraceInit /\ [][TraceNext]_tvars

OutAgrees(specout, logged) ==
  \/ specout = logged
  \/ (specout = "Raises" /\ logged # "ok")
(* the spec state after event l-1 must be what was observed *)
F(p) == Focus \in {p, "all"}
Match ==
  (pc = Idle /\ l > 1) =>
     LET p == Ev[l - 1].post IN
     /\ ((F("C03") \/ F("C09") \/ F("C13")) => OutAgrees(out, p.out))
     /\ gone = p.gone
     /\ cx.on = p.ctx
     /\ (~gone =>
           /\ ((F("C03") \/ F("C09") \/ F("C02")) => rows = p.rows /\ tail = p.tail)
           /\ ((F("C02") \/ F("C09")) => descr = DescrOf(p.descr))
           /\ (F("C08") => readme = ReadmeOf(p.readme))
           /\ (F("C13") => meta = MetaOf(p.meta))
           /\ ((F("C03") \/ F("C09")) => hlen = p.hlen /\ mode = p.mode /\ OpenOutcome = p.fresh)
           /\ (F("C13") => mmode = p.mmode))
(* book-keeping: how far each trace could be explained *)
Progress == (pc = Idle /\ Match) => TLCSet(tid, IF TLCGet(tid) < l THEN l ELSE TLCGet(tid))
Constraint == Match /\ Progress
ASSUME \A t \in 1..Len(Traces) : TLCSet(t, 0)
Accepted == \A t \in 1..Len(Traces) : TLCGet(t) = Len(Traces[t].events) + 1
Report == [t \in 1..Len(Traces) |-> TLCGet(t)]
Post == PrintT(<<"TRACEREPORT", Report>>)
=============================================================================
