------------------------------ MODULE DirTree ------------------------------
(***************************************************************************)
(* C20: path spellings and the protection rule of DataDir.                 *)
(* C16: what deletion and creation may touch.                              *)
(*                                                                         *)
(* A spelling is a sequence of path components:                            *)
(*   "."  ".."  ""(redundant separator)                                    *)
(*   "P"  a protected file name at the top of the array directory          *)
(*   "S"  a protected sub-directory of a ragged array (values / indices)   *)
(*   "X"  a file inside such a sub-directory                               *)
(*   "U"  an existing user file      "E"  a name that does not exist       *)
(*   "D"  the array directory's own name (meaningful from its parent)      *)
(* Lex(sp) is the lexical normal form (as os.path.normpath computes it),   *)
(* relative to the array directory: a sequence of names, or Outside.       *)
(* OsOk(kind, sp) says whether the operating system can walk the spelling  *)
(* (every intermediate component must exist and be a directory).           *)
(***************************************************************************)
EXTENDS Integers, Sequences, FiniteSets

Outside == <<"#outside">>
Comps == {".", "..", "", "P", "S", "X", "U", "E", "D"}

RECURSIVE LexFrom(_, _, _)
(* level: 0 = in the array directory (stack = names below it), -1 = in its parent *)
LexFrom(sp, level, stack) ==
  IF sp = <<>> THEN (IF level = 0 THEN stack ELSE Outside)
  ELSE LET c == Head(sp) rest == Tail(sp) IN
       IF c \in {".", ""} THEN LexFrom(rest, level, stack)
       ELSE IF c = ".." THEN
              (IF level = 0 /\ stack # <<>> THEN LexFrom(rest, 0, SubSeq(stack, 1, Len(stack) - 1))
               ELSE IF level = 0 THEN LexFrom(rest, -1, <<>>)
               ELSE Outside)
       ELSE IF level = -1 THEN (IF c = "D" THEN LexFrom(rest, 0, <<>>) ELSE Outside)
       ELSE LexFrom(rest, 0, Append(stack, c))
Lex(sp) == LexFrom(sp, 0, <<>>)

(* does `stack` name an existing directory / an existing entry of an array of this kind? *)
IsDir(kind, stack) == stack = <<>> \/ (kind = "RaggedArray" /\ stack = <<"S">>)
Exists(kind, stack) == \/ IsDir(kind, stack)
                       \/ stack \in {<<"P">>, <<"U">>}
                       \/ (kind = "RaggedArray" /\ stack = <<"S", "X">>)

RECURSIVE OsWalk(_, _, _, _)
(* TRUE iff the operating system can walk the spelling: a name that is followed *)
(* by further components must be an existing directory                          *)
OsWalk(kind, sp, level, stack) ==
  IF sp = <<>> THEN TRUE
  ELSE LET c == Head(sp) rest == Tail(sp) IN
       IF c \in {".", ""} THEN OsWalk(kind, rest, level, stack)
       ELSE IF c = ".." THEN
              (IF level = 0 /\ stack # <<>> THEN OsWalk(kind, rest, 0, SubSeq(stack, 1, Len(stack) - 1))
               ELSE IF level = 0 THEN OsWalk(kind, rest, -1, <<>>)
               ELSE FALSE)
       ELSE IF level = -1 THEN (c = "D" /\ OsWalk(kind, rest, 0, <<>>))
       ELSE (rest = <<>> \/ (IsDir(kind, Append(stack, c)) /\ OsWalk(kind, rest, 0, Append(stack, c))))
OsOk(kind, sp) == OsWalk(kind, sp, 0, <<>>)

(* the protection rule of the property *)
Protected(kind, tgt) ==
  /\ tgt # Outside /\ tgt # <<>>
  /\ \/ tgt[1] = "P"
     \/ (kind = "RaggedArray" /\ tgt[1] = "S")
(* spellings that are enumerated: they end, lexically, on a name inside the directory *)
Targets(kind) == {<<"P">>, <<"U">>, <<"E">>} \cup
                 (IF kind = "RaggedArray" THEN {<<"S">>, <<"S", "X">>, <<"S", "E">>} ELSE {})
Meaningful(kind, sp) ==
  /\ Lex(sp) \in Targets(kind)
  /\ (kind = "Array" => \A k \in 1..Len(sp) : sp[k] \notin {"S", "X"})

(* what a public DataDir writer must do with a spelling *)
Verdict(kind, sp) ==
  LET t == Lex(sp) IN
  IF Protected(kind, t) THEN "Refused"          \* OSError, directory byte-identical
  ELSE IF ~OsOk(kind, sp) THEN "OsError"        \* the OS cannot walk it: OSError, unchanged
  ELSE "Allowed"

(* pathlib.Path drops "." and empty components (and trailing separators) before the OS sees them *)
RECURSIVE Strip(_)
Strip(sp) == IF sp = <<>> THEN <<>>
             ELSE (IF Head(sp) \in {".", ""} THEN <<>> ELSE <<Head(sp)>>) \o Strip(Tail(sp))
Spellings(n) == UNION {[1..k -> Comps] : k \in 1..n}
(* a leading empty component would make the string an absolute path: not a spelling of a name here *)
SpellRows(n) == UNION {{[kind |-> kd, sp |-> sp, target |-> Lex(sp), verdict |-> Verdict(kd, sp),
                         verdict_path |-> Verdict(kd, Strip(sp))] :
                          sp \in {s \in Spellings(n) : Meaningful(kd, s) /\ s[1] # ""}} : kd \in {"Array", "RaggedArray"}}

(* ---- effect of a writer on an allowed (user) name ---- *)
Methods == {"write_txt", "write_jsonfile", "write_jsondict", "update_jsondict", "delete_files",
            "open_w", "open_a", "open_x", "open_rplus", "open_wb", "open_ab", "open_rbplus"}
Effect(m, exists, overwrite) ==
  CASE m \in {"write_txt", "write_jsonfile", "write_jsondict"} ->
          (IF exists /\ ~overwrite THEN "OSError" ELSE "Written")
    [] m = "update_jsondict" -> (IF exists THEN "Updated" ELSE "OSError")
    [] m = "delete_files" -> (IF exists THEN "Deleted" ELSE "NoChange")
    [] m \in {"open_w", "open_wb"} -> "Written"
    [] m \in {"open_a", "open_ab"} -> "Appended"
    [] m = "open_x" -> (IF exists THEN "OSError" ELSE "Written")
    [] m \in {"open_rplus", "open_rbplus"} -> (IF exists THEN "Modified" ELSE "OSError")
EffectRows == {[m |-> m, exists |-> ex, overwrite |-> ow, effect |-> Effect(m, ex, ow)] :
                 m \in Methods, ex \in BOOLEAN, ow \in BOOLEAN}

(***************************************************************************)
(* C16                                                                     *)
(***************************************************************************)
Kinds == {"Array", "RaggedArray", "plaindir", "file", "missing"}
Foreign == {"none", "file", "dir", "symlink_file", "symlink_dir", "collide_dir", "collide_symlink"}
Locs == {"top", "values", "indices"}
Deleters == {"delete_array", "delete_raggedarray"}
RightKind(fn, kind) == (fn = "delete_array" /\ kind = "Array") \/ (fn = "delete_raggedarray" /\ kind = "RaggedArray")

(* out: exception class; all_gone: nothing of the array remains; foreign entries always survive *)
DeleteVerdict(fn, kind, foreign, loc) ==
  IF ~RightKind(fn, kind) THEN [out |-> "TypeError", unchanged |-> TRUE, all_gone |-> FALSE]
  ELSE IF foreign = "none" THEN [out |-> "ok", unchanged |-> FALSE, all_gone |-> TRUE]
  (* a symlink that carries a Darr file name: it must not be followed; whether the link *)
  (* itself goes, and whether the call then succeeds, is not demanded                    *)
  ELSE IF foreign = "collide_symlink" THEN [out |-> "Any", unchanged |-> FALSE, all_gone |-> FALSE]
  ELSE [out |-> "OSError", unchanged |-> FALSE, all_gone |-> FALSE]
(* "staleobject": a handle of the kind the deleter wants, made when the path held such an array; *)
(* the array was deleted since and the path now holds something of another kind.  The call must   *)
(* raise (which exception is not demanded: the handle itself is of the right type) and touch      *)
(* nothing.                                                                                       *)
Forms3 == {"object", "str", "Path", "staleobject"}
DelCase(t) == /\ (t[4] # "top" => t[2] = "RaggedArray")
              /\ (t[5] = "object" => RightKind(t[1], t[2]))
              /\ (t[5] = "staleobject" => ~RightKind(t[1], t[2]) /\ t[3] = "none" /\ t[4] = "top")
              /\ (t[3] # "none" => t[2] \notin {"file", "missing"})
DeleteRows == {[fn |-> t[1], kind |-> t[2], foreign |-> t[3], loc |-> t[4], form |-> t[5],
                v |-> IF t[5] = "staleobject" THEN [out |-> "Raises", unchanged |-> TRUE, all_gone |-> FALSE]
                      ELSE DeleteVerdict(t[1], t[2], t[3], t[4])] :
                 t \in {u \in Deleters \X Kinds \X Foreign \X Locs \X Forms3 : DelCase(u)}}

Creators == {"asarray", "create_array", "asraggedarray", "create_raggedarray", "copy_array", "copy_ragged", "archive"}
(* "dir_links": a user's directory holding symbolic links that carry Darr's file names (arrayvalues.bin,   *)
(* arraydescription.json, README.txt, metadata.json -> files elsewhere; values, indices -> directories        *)
(* elsewhere); "array_links": an array whose README.txt and metadata.json were replaced by such links.       *)
(* What the links point to is foreign: no creating function may write through them.                         *)
Occupants == {"array_meta", "ragged", "file", "dir_foreign", "array_larger", "array_smaller", "dir_links", "array_links"}
(* overwrite=False on an existing path: raises and modifies nothing;             *)
(* overwrite=True: may succeed or raise, but foreign entries are never touched   *)
CreateVerdict(fn, occ, overwrite) ==
  IF ~overwrite THEN [out |-> "Raises", unchanged |-> TRUE]
  ELSE [out |-> "Any", unchanged |-> FALSE]
(* the path is occupied by a symbolic link (to a file, to a directory, or dangling): with *)
(* overwrite=False every creator must raise and leave link and target alone               *)
LinkOccupants == {"symlink_file", "symlink_dir", "symlink_dangling"}
CreateRows == {[fn |-> fn, occ |-> oc, overwrite |-> ow, form |-> fm, v |-> CreateVerdict(fn, oc, ow)] :
                 fn \in Creators, oc \in Occupants, ow \in BOOLEAN, fm \in {"str", "Path"}}
              \cup
              {[fn |-> fn, occ |-> oc, overwrite |-> FALSE, form |-> fm, v |-> CreateVerdict(fn, oc, FALSE)] :
                 fn \in Creators, oc \in LinkOccupants, fm \in {"str", "Path"}}
=============================================================================
