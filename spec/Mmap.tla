-------------------------------- MODULE Mmap --------------------------------
(***************************************************************************)
(* C19 (and the lifecycle part of C12): the memory map that all users of   *)
(* one Array object share through Array._open_array.                       *)
(*                                                                         *)
(* Users: generators g \in Gens (iterchunks, each with its own frames),    *)
(* contexts c \in 1..MaxCtx (open_array(), properly nested), and           *)
(* instantaneous element reads and writes.                                 *)
(* cache      id of the cached map (0 = none)  = Array._memmap             *)
(* nusers     number of users of the cached map (the repaired algorithm    *)
(*            counts them; Algorithm = "owner" is the pinned code, where   *)
(*            whoever opened the map closes it when it finishes)           *)
(* mapped[m]  map m (and its file object) is still open                    *)
(* holds[u]   the map user u obtained when it started (0 = not started)    *)
(* owner[u]   u opened the map itself (pinned algorithm)                   *)
(* pos[g]     number of frames generator g has yielded                     *)
(* content    one value per frame unit of the array                        *)
(* ret        what the last action returned (compared with the real code)  *)
(* crashed    a user touched a map that was already unmapped               *)
(* cmode      access mode of the cached map ("none", "r", "rp"): the first  *)
(*            user's accessmode argument decides ("d" = the handle's own   *)
(*            mode, r+ here); later users share the map whatever they ask *)
(***************************************************************************)
EXTENDS Integers, Sequences, FiniteSets, TLC

CONSTANTS Gens, Frames, MaxCtx, NUnits, Algorithm, MaxMaps, Modes

VARIABLES cache, nusers, mapped, holds, owner, gstate, pos, nctx, content, ret, crashed, cmode

vars == <<cache, nusers, mapped, holds, owner, gstate, pos, nctx, content, ret, crashed, cmode>>
Ctx == 1..MaxCtx
CtxNames == <<"ctx1", "ctx2", "ctx3", "ctx4">>
CtxUser(c) == CtxNames[c]
Users == Gens \cup {CtxUser(c) : c \in Ctx}

Init == /\ cache = 0 /\ nusers = 0 /\ mapped = [m \in 1..MaxMaps |-> FALSE]
        /\ holds = [u \in Users |-> 0] /\ owner = [u \in Users |-> FALSE]
        /\ gstate = [g \in Gens |-> "new"] /\ pos = [g \in Gens |-> 0]
        /\ nctx = 0 /\ content = [i \in 1..NUnits |-> 0] /\ ret = <<>> /\ crashed = FALSE
        /\ cmode = "none"

FreeMap(m) == ~mapped[m] /\ \A u \in Users : holds[u] # m
(* _open_array entry for user u *)
Acquire(u, md) ==
  IF cache # 0
  THEN /\ holds' = [holds EXCEPT ![u] = cache] /\ owner' = [owner EXCEPT ![u] = FALSE]
       /\ nusers' = nusers + 1 /\ UNCHANGED <<cache, mapped, cmode>>
  ELSE /\ \E f \in 1..MaxMaps : FreeMap(f)
       /\ LET m == CHOOSE f \in 1..MaxMaps : FreeMap(f) /\ \A h \in 1..MaxMaps : FreeMap(h) => f <= h IN
            /\ cache' = m /\ mapped' = [mapped EXCEPT ![m] = TRUE]
            /\ holds' = [holds EXCEPT ![u] = m] /\ owner' = [owner EXCEPT ![u] = TRUE]
       /\ nusers' = 1 /\ cmode' = (IF md = "r" THEN "r" ELSE "rp")

(* _open_array exit (the finally block) for user u *)
Release(u) ==
  /\ holds' = [holds EXCEPT ![u] = 0] /\ owner' = [owner EXCEPT ![u] = FALSE]
  /\ IF Algorithm = "refcount"
     THEN IF nusers = 1
          THEN /\ mapped' = [mapped EXCEPT ![holds[u]] = FALSE] /\ cache' = 0 /\ nusers' = 0 /\ cmode' = "none"
          ELSE /\ nusers' = nusers - 1 /\ UNCHANGED <<mapped, cache, cmode>>
     ELSE (* pinned: only the opener closes, whoever else is still using it *)
          IF owner[u]
          THEN /\ mapped' = [mapped EXCEPT ![holds[u]] = FALSE] /\ cache' = 0 /\ nusers' = 0 /\ cmode' = "none"
          ELSE /\ nusers' = nusers /\ UNCHANGED <<mapped, cache, cmode>>

(* reading frame k of generator g through the map it holds *)
FrameVals(g, k) == [i \in 1..(Frames[g][k][2] - Frames[g][k][1]) |-> content[Frames[g][k][1] + i]]

(* first next(): enters the context, yields the first frame (or is exhausted) *)
Start(g, md) ==
  /\ gstate[g] = "new" /\ ~crashed /\ md \in Modes
  /\ Acquire(g, md)
  /\ IF Len(Frames[g]) = 0
     THEN FALSE
     ELSE /\ gstate' = [gstate EXCEPT ![g] = "active"] /\ pos' = [pos EXCEPT ![g] = 1]
          /\ ret' = FrameVals(g, 1)
  /\ UNCHANGED <<nctx, content, crashed>>

(* next() on a started generator: next frame, or exhaustion (finally runs) *)
Advance(g) ==
  /\ gstate[g] = "active" /\ ~crashed
  /\ IF pos[g] < Len(Frames[g])
     THEN /\ IF mapped[holds[g]]
             THEN ret' = FrameVals(g, pos[g] + 1) /\ UNCHANGED crashed
             ELSE crashed' = TRUE /\ ret' = <<-1>>
          /\ pos' = [pos EXCEPT ![g] = pos[g] + 1]
          /\ UNCHANGED <<cache, nusers, mapped, holds, owner, gstate, cmode>>
     ELSE /\ Release(g) /\ gstate' = [gstate EXCEPT ![g] = "done"] /\ ret' = <<-2>>   \* StopIteration
          /\ UNCHANGED <<pos, crashed>>
  /\ UNCHANGED <<nctx, content>>

(* g.close() / abandoning a started generator *)
Close(g) ==
  /\ gstate[g] = "active" /\ ~crashed
  /\ Release(g) /\ gstate' = [gstate EXCEPT ![g] = "done"] /\ ret' = <<>>
  /\ UNCHANGED <<pos, nctx, content, crashed>>

Enter(md) ==
  /\ nctx < MaxCtx /\ ~crashed /\ md \in Modes
  /\ Acquire(CtxUser(nctx + 1), md) /\ nctx' = nctx + 1 /\ ret' = <<>>
  /\ UNCHANGED <<gstate, pos, content, crashed>>
Exit ==
  /\ nctx > 0 /\ ~crashed
  /\ Release(CtxUser(nctx)) /\ nctx' = nctx - 1 /\ ret' = <<>>
  /\ UNCHANGED <<gstate, pos, content, crashed>>

(* a[i] and a[i] = v outside or inside contexts: open (or reuse), access, close *)
TouchOK == cache = 0 \/ mapped[cache]
Read(i) ==
  /\ ~crashed /\ i \in 1..NUnits
  /\ IF TouchOK THEN ret' = <<content[i]>> /\ UNCHANGED crashed
     ELSE crashed' = TRUE /\ ret' = <<-1>>
  /\ UNCHANGED <<cache, nusers, mapped, holds, owner, gstate, pos, nctx, content, cmode>>
(* a write through a read-only cached map is refused by NumPy (WriteThroughOpenMap in Array.tla): *)
(* such schedules are outside this model                                                           *)
Write(i) ==
  /\ ~crashed /\ i \in 1..NUnits /\ (cache = 0 \/ cmode = "rp")
  /\ IF TouchOK THEN content' = [content EXCEPT ![i] = 1 - content[i]] /\ UNCHANGED crashed
     ELSE crashed' = TRUE /\ UNCHANGED content
  /\ ret' = <<>>
  /\ UNCHANGED <<cache, nusers, mapped, holds, owner, gstate, pos, nctx, cmode>>

Next == \/ \E g \in Gens : (\E md \in Modes : Start(g, md)) \/ Advance(g) \/ Close(g)
        \/ (\E md \in Modes : Enter(md)) \/ Exit
        \/ \E i \in 1..NUnits : Read(i) \/ Write(i)
Spec == Init /\ [][Next]_vars

NoUseAfterUnmap == ~crashed
ActiveUsers == {g \in Gens : gstate[g] = "active"} \cup {CtxUser(c) : c \in 1..nctx}
(* every active user's map is still mapped *)
HoldersMapped == \A u \in ActiveUsers : holds[u] # 0 /\ mapped[holds[u]]
(* once all generators and contexts are finished nothing remains open *)
NoLeak == (ActiveUsers = {}) => (cache = 0 /\ \A m \in 1..MaxMaps : ~mapped[m])
(* at most one map is open at any time, and it is the cached one *)
OneMap == \A m \in 1..MaxMaps : mapped[m] => m = cache
(* a map that users hold is never exchanged for another one, whatever mode a later user asks for *)
MapStable == [][(cache # 0 /\ cache' # 0) => (cache' = cache /\ cmode' = cmode)]_vars
ModeKnown == (cache = 0) <=> (cmode = "none")
=============================================================================
