------------------------------- MODULE Shared -------------------------------
(***************************************************************************)
(* Several live darr.Array handles on ONE directory.  Call-level model (the *)
(* library is sequential; every public call is one step).                  *)
(*                                                                         *)
(* Disk    rows   arrayvalues.bin as complete first-axis rows; row 0 is a  *)
(*                row of zero bytes (what NumPy pads a file with)          *)
(*         dlen   length stated by arraydescription.json                   *)
(* Handle  hlen[h]  the shape each handle has cached (Array._shape[0] and  *)
(*                  _arrayinfo['shape']); mode[h] its access mode          *)
(* Ghost   stale  some call so far went through a handle whose cached      *)
(*                length was not the one on disk                           *)
(*                                                                         *)
(* What the code does, and the model says, with a handle h:                *)
(*  - the description is RE-READ at every access: the file is mapped with   *)
(*    the length dlen it states, so reads and element writes through any    *)
(*    handle see the current rows; only len(a)/a.shape come from the cache; *)
(*    a file shorter than the description is refused in mode 'r'            *)
(*    (ValueError) and silently extended with zero bytes by NumPy in mode   *)
(*    'r+' (PadOnMap) - even by a read;                                     *)
(*  - append writes at the end of the FILE but adds to the CACHED length    *)
(*    and rewrites the description with it (StaleAppend: description and    *)
(*    file then disagree, the array cannot be opened any more); a handle    *)
(*    that believes the array is empty rewrites the file from scratch       *)
(*    (EmptyOverwrite);                                                     *)
(*  - truncate computes the new length from the description, but accepts    *)
(*    it against the cached length.                                         *)
(* A handle that is up to date (hlen[h] = dlen = Len(rows)) behaves as in   *)
(* spec/Array.tla.  For a stale handle the model also admits the behaviour  *)
(* of an up-to-date one ("Ideal"): a library that refreshed its cache       *)
(* first would be just as right.  Safe: as long as no call went through a   *)
(* stale handle, description and file agree.                                *)
(***************************************************************************)
EXTENDS Integers, Sequences, FiniteSets, TLC, SequencesExt, PySlice

CONSTANTS RowIds, MaxRows, Handles, AppendChunks, TruncArgs, SetIdx, InitLens, Modes2

VARIABLES rows, dlen, hlen, mode, out, view, stale

vars == <<rows, dlen, hlen, mode, out, view, stale>>
Zero == 0
NoView == <<-1>>
Pad(r, n) == IF n > Len(r) THEN r \o [k \in 1..(n - Len(r)) |-> Zero] ELSE r

Init == /\ \E n \in InitLens : \E r \in [1..n -> RowIds] :
             /\ rows = r /\ dlen = n /\ hlen = [h \in Handles |-> n]
        /\ mode \in [Handles -> Modes2] /\ out = "ok" /\ view = NoView /\ stale = FALSE

Consistent == dlen = Len(rows)
IsStale(h) == hlen[h] # dlen \/ ~Consistent
Mark(h) == stale' = (stale \/ IsStale(h))

(* mapping the file with the length the description states, in access mode m: <<ok?, rows afterwards>> *)
MapNow(m) == IF dlen = 0 \/ dlen <= Len(rows) THEN <<TRUE, rows>>
             ELSE IF m = "r+" THEN <<TRUE, Pad(rows, dlen)>>          \* PadOnMap
             ELSE <<FALSE, rows>>
Cut(r, n) == IF n <= Len(r) THEN SubSeq(r, 1, n) ELSE Pad(r, n)       \* os.truncate also extends

(* the bodies, parameterised by the length b the handle believes the array has *)
ReadBody(h, b) ==
  LET mp == MapNow(mode[h]) IN
  IF ~mp[1] THEN out' = "ValueError" /\ view' = NoView /\ UNCHANGED <<rows, dlen>> /\ hlen' = [hlen EXCEPT ![h] = b]
  ELSE /\ rows' = mp[2] /\ view' = SubSeq(mp[2], 1, dlen) /\ out' = "ok" /\ UNCHANGED dlen
       /\ hlen' = [hlen EXCEPT ![h] = b]

AppendBody(h, c, b) ==
  IF mode[h] # "r+" THEN out' = "OSError" /\ UNCHANGED <<rows, dlen, hlen>>
  ELSE IF b = 0
       THEN /\ rows' = c /\ dlen' = Len(c) /\ hlen' = [hlen EXCEPT ![h] = Len(c)] /\ out' = "ok"    \* EmptyOverwrite
       ELSE LET mp == MapNow("r+") IN
            /\ rows' = mp[2] \o c /\ dlen' = b + Len(c) /\ hlen' = [hlen EXCEPT ![h] = b + Len(c)] /\ out' = "ok"

TruncBody(h, i, b) ==
  IF mode[h] # "r+" THEN out' = "OSError" /\ UNCHANGED <<rows, dlen, hlen>>
  ELSE LET mp == MapNow("r+")
           nl == TruncLen(i, dlen)
       IN IF 0 <= nl /\ nl < b
          THEN /\ rows' = Cut(mp[2], nl) /\ dlen' = nl /\ hlen' = [hlen EXCEPT ![h] = nl] /\ out' = "ok"
          ELSE /\ rows' = mp[2] /\ out' = "IndexError" /\ UNCHANGED dlen /\ hlen' = [hlen EXCEPT ![h] = b]

SetBody(h, i, id, b) ==
  IF mode[h] # "r+" THEN out' = "OSError" /\ UNCHANGED <<rows, dlen, hlen>>
  ELSE LET mp == MapNow("r+")
           p == NormIndex(i, dlen)
       IN IF p = IndexErr
          THEN /\ rows' = mp[2] /\ out' = "IndexError" /\ UNCHANGED dlen /\ hlen' = [hlen EXCEPT ![h] = b]
          ELSE /\ rows' = [mp[2] EXCEPT ![p + 1] = id] /\ out' = "ok" /\ UNCHANGED dlen
               /\ hlen' = [hlen EXCEPT ![h] = b]

(* the lengths a call through h may work with: the cached one (what the code does), or - for a   *)
(* stale handle on a consistent directory - the current one (Ideal)                              *)
Bases(h) == {hlen[h]} \cup (IF Consistent THEN {dlen} ELSE {})

H_Read(h) == /\ \E b \in Bases(h) : ReadBody(h, b)
           /\ Mark(h) /\ UNCHANGED mode
H_Append(h, c) == /\ Len(rows) + Len(c) <= MaxRows /\ hlen[h] + Len(c) <= MaxRows
                /\ \E b \in Bases(h) : AppendBody(h, c, b)
                /\ view' = NoView /\ Mark(h) /\ UNCHANGED mode
H_Truncate(h, i) == /\ \E b \in Bases(h) : TruncBody(h, i, b)
                  /\ view' = NoView /\ Mark(h) /\ UNCHANGED mode
H_SetItem(h, i, id) == /\ \E b \in Bases(h) : SetBody(h, i, id, b)
                     /\ view' = NoView /\ Mark(h) /\ UNCHANGED mode
(* Array(path, accessmode=m): the open check compares description and file *)
H_Reopen(h, m) == /\ IF Consistent THEN hlen' = [hlen EXCEPT ![h] = dlen] /\ mode' = [mode EXCEPT ![h] = m] /\ out' = "ok"
                   ELSE out' = "ValueError" /\ UNCHANGED <<hlen, mode>>
                /\ view' = NoView /\ UNCHANGED <<rows, dlen, stale>>

Next == \E h \in Handles :
          \/ H_Read(h)
          \/ \E c \in AppendChunks : H_Append(h, c)
          \/ \E i \in TruncArgs : H_Truncate(h, i)
          \/ \E i \in SetIdx, id \in RowIds : H_SetItem(h, i, id)
          \/ \E m \in Modes2 : H_Reopen(h, m)
Spec == Init /\ [][Next]_vars

(***************************************************************************)
(* Properties                                                              *)
(***************************************************************************)
(* description and file agree as long as every call went through an up-to-date handle *)
Safe == ~stale => Consistent
(* a fresh open never shows anything but the file: it raises when the description disagrees *)
FreshOutcome == IF Consistent THEN rows ELSE NoView
(* what a read returned is a prefix of the file as it is after the read *)
ViewIsPrefix == view # NoView => IsPrefix(view, rows)
(* on a consistent directory every handle, stale or not, reads exactly the current rows *)
ReadsCurrent == (view # NoView /\ Consistent) => view = rows
(* the deviations are real: TLC must find each of these violated *)
NeverInconsistent == Consistent                                    \* StaleAppend / PadOnMap
NeverPadded == \A k \in 1..Len(rows) : rows[k] # Zero              \* PadOnMap
TypeOK == /\ Len(rows) <= MaxRows + 2 /\ dlen \in 0..(MaxRows + 2)
          /\ \A h \in Handles : hlen[h] \in 0..(MaxRows + 2)
=============================================================================
