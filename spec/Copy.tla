-------------------------------- MODULE Copy --------------------------------
(***************************************************************************)
(* C15: copy() makes a faithful, independent replica; archive() a          *)
(* snapshot.  Two directories: a (the source) and b (the copy).  An array  *)
(* is [ex, items, meta, dt]: items are first-axis rows (Array) or          *)
(* subarrays (RaggedArray) as abstract ids; dt is "src" or the target type *)
(* "dst".  Mutations after the copy act on one side only.                  *)
(***************************************************************************)
EXTENDS Integers, Sequences, FiniteSets, TLC

CONSTANTS ItemIds, MaxLen, InitItems, InitMetas

VARIABLES a, b, out
vars == <<a, b, out>>
Gone == [ex |-> FALSE]
Arr(items, meta, dt) == [ex |-> TRUE, items |-> items, meta |-> meta, dt |-> dt]

Init == /\ \E it \in InitItems, m \in InitMetas : a = Arr(it, m, "src")
        /\ b = Gone /\ out = "ok"

(* a.copy(path_b, dtype, chunklen, accessmode='r+', overwrite=False) *)
CopyAB(dt, c) ==
  /\ a.ex /\ dt \in {"same", "dst"} /\ c \in {0, 1, 2}
  /\ IF b.ex THEN out' = "Raises" /\ UNCHANGED b          \* existing path, overwrite=False
     ELSE /\ b' = Arr(a.items, a.meta, IF dt = "same" THEN a.dt ELSE "dst") /\ out' = "ok"
  /\ UNCHANGED a

(* one mutation of one array; the other one is not mentioned at all *)
Mut(x, op, v) ==
  CASE op = "append" -> IF Len(x.items) < MaxLen THEN [x EXCEPT !.items = x.items \o <<v>>] ELSE x
    [] op = "truncate" -> IF Len(x.items) > 0 THEN [x EXCEPT !.items = SubSeq(x.items, 1, Len(x.items) - 1)] ELSE x
    [] op = "set" -> IF Len(x.items) > 0 THEN [x EXCEPT !.items = [x.items EXCEPT ![1] = v]] ELSE x
    [] op = "meta" -> [x EXCEPT !.meta = 1 - x.meta]
    [] op = "delete" -> Gone
Ops == {"append", "truncate", "set", "meta", "delete"}
MutA(op, v) == /\ a.ex /\ b.ex /\ op \in Ops /\ v \in ItemIds
               /\ (op \in {"truncate", "meta", "delete"} => v = CHOOSE i \in ItemIds : TRUE)
               /\ Mut(a, op, v) # a
               /\ a' = Mut(a, op, v) /\ out' = "ok" /\ UNCHANGED b
MutB(op, v) == /\ b.ex /\ op \in Ops /\ v \in ItemIds
               /\ (op \in {"truncate", "meta", "delete"} => v = CHOOSE i \in ItemIds : TRUE)
               /\ Mut(b, op, v) # b
               /\ b' = Mut(b, op, v) /\ out' = "ok" /\ UNCHANGED a

Next == \/ \E dt \in {"same", "dst"}, c \in {0, 1, 2} : CopyAB(dt, c)
        \/ \E op \in Ops, v \in ItemIds : MutA(op, v) \/ MutB(op, v)
Spec == Init /\ [][Next]_vars

(* the copy equals the source at the moment of copying; later they are independent *)
Independent == [][(a' # a => b' = b) /\ (b' # b /\ b.ex => a' = a)]_vars
Faithful == [][(~b.ex /\ b'.ex) => (b'.items = a.items /\ b'.meta = a.meta)]_vars

=============================================================================
