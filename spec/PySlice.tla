------------------------------ MODULE PySlice ------------------------------
(* Python / NumPy indexing along one axis, as pure operators.               *)
(* NoneV stands for Python's None; IndexErr for "raises IndexError".        *)
EXTENDS Integers, Sequences

NoneV == -999999
IndexErr == -999998

Clamp(x, lo, hi) == IF x < lo THEN lo ELSE IF x > hi THEN hi ELSE x

RECURSIVE RangeSeq(_, _, _)
(* Python range(a, b, s), s # 0, as a sequence *)
RangeSeq(a, b, s) == IF (s > 0 /\ a >= b) \/ (s < 0 /\ a <= b) THEN <<>>
                     ELSE <<a>> \o RangeSeq(a + s, b, s)

(* slice(start, stop, step).indices(n) followed by range(): the 0-based     *)
(* positions selected by a[start:stop:step] on an axis of length n          *)
SliceIdx(start, stop, step, n) ==
  LET st == IF step = NoneV THEN 1 ELSE step
      lo == IF st > 0 THEN 0 ELSE -1
      hi == IF st > 0 THEN n ELSE n - 1
      s0 == IF start = NoneV THEN (IF st > 0 THEN 0 ELSE n - 1)
            ELSE Clamp(IF start < 0 THEN start + n ELSE start, lo, hi)
      e0 == IF stop = NoneV THEN (IF st > 0 THEN n ELSE -1)
            ELSE Clamp(IF stop < 0 THEN stop + n ELSE stop, lo, hi)
  IN RangeSeq(s0, e0, st)

(* a[i] for an integer i on an axis of length n: 0-based position or IndexErr *)
NormIndex(i, n) == IF 0 <= i /\ i < n THEN i
                   ELSE IF -n <= i /\ i < 0 THEN i + n ELSE IndexErr

(* len(a[:index]) *)
TruncLen(index, n) == Len(SliceIdx(NoneV, index, NoneV, n))

(* elements of sequence s (1-based TLA+) at the 0-based positions pos *)
Pick(s, pos) == [k \in 1..Len(pos) |-> s[pos[k] + 1]]
=============================================================================
