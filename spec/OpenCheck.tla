----------------------------- MODULE OpenCheck -----------------------------
(***************************************************************************)
(* C18: which array directories must be rejected at open time.             *)
(* A case is a valid array directory with ONE thing wrong: the state of    *)
(* the descriptor file, or the token class of one descriptor field, or the *)
(* length of the data file (delta bytes).  Verdict(c) is what opening must *)
(* do: "Raises", "Opens", or "Any" where the property does not say.        *)
(* The size equation is evaluated with the abstract item sizes below.      *)
(***************************************************************************)
EXTENDS Integers, Sequences, FiniteSets, FiniteSetsExt, SequencesExt

Fields == {"numtype", "byteorder", "shape", "arrayorder", "darrversion", "darrobject"}
FileStates == {"dict", "missing", "notjson", "list", "number", "string", "null"}
Retyped == {"null", "bool", "int", "float", "list", "dict"}

(* token classes per field; "ok" = the valid original value *)
Tokens(f) ==
  CASE f = "numtype"     -> {"ok", "missing", "badstr", "samesize", "smaller", "larger"} \cup Retyped
    [] f = "byteorder"   -> {"ok", "missing", "badstr", "other"} \cup Retyped
    [] f = "shape"       -> {"ok", "missing", "str", "sameprod", "longer", "shorter", "negative",
                             "floats", "strs", "nulls", "nested", "null", "int", "float", "dict", "bool"}
    [] f = "arrayorder"  -> {"ok", "missing", "badstr", "F"} \cup Retyped
    [] f = "darrversion" -> {"ok", "missing", "newer", "badstr"} \cup Retyped
    [] f = "darrobject"  -> {"ok", "missing", "unknown"} \cup Retyped

Deltas == {-100000, -2, -1, 0, 1, 2, 7}     \* -100000 stands for "file emptied"
Kinds == {"oned", "nd", "empty", "ragged_values", "ragged_indices"}
Openers == {"Array", "open", "RaggedArray"}

Cases == {[file |-> fs, field |-> f, token |-> t, delta |-> d, kind |-> k] :
            fs \in FileStates, f \in Fields, t \in {"ok"}, d \in Deltas, k \in Kinds}
         \cup
         UNION {{[file |-> "dict", field |-> f, token |-> t, delta |-> d, kind |-> k] :
                   t \in Tokens(f), d \in {0, 1, -1}, k \in Kinds} : f \in Fields}

(* does the descriptor describe an array at all (every field usable)? *)
FieldVerdict(f, t) ==
  CASE t = "ok" -> "valid"
    [] f = "numtype" /\ t \in {"samesize"} -> "valid"
    [] f = "numtype" /\ t \in {"smaller", "larger"} -> "sizechange"
    [] f = "byteorder" /\ t = "other" -> "valid"
    [] f = "shape" /\ t = "sameprod" -> "valid"
    [] f = "shape" /\ t \in {"longer", "shorter"} -> "sizechange"
    [] f = "arrayorder" /\ t = "F" -> "valid"
    [] f = "darrversion" /\ t = "newer" -> "valid"
    [] f = "darrversion" /\ t = "missing" -> "invalid"
    [] f = "darrversion" -> "unspecified"           \* the property does not name it
    [] f = "darrobject" -> "objectfield"
    [] OTHER -> "invalid"

(* Array(path) and RaggedArray(path) for the sub-array; darr.open(path) *)
Verdict(c, opener) ==
  IF c.file # "dict" THEN "Raises"
  ELSE LET fv == FieldVerdict(c.field, c.token) IN
    CASE fv = "invalid" -> "Raises"
      [] fv = "unspecified" -> "Any"
      [] fv = "objectfield" ->
            (IF opener = "open" /\ c.kind \in {"oned", "nd", "empty"}
             THEN "Raises"                     \* open() dispatches on darrobject
             ELSE IF c.delta # 0 THEN "Raises" ELSE "Any")
      [] fv = "sizechange" ->
            (* the size equation is false unless the array holds no element *)
            (IF c.kind = "empty" /\ c.field = "numtype" /\ c.delta = 0 THEN "Opens"
             ELSE IF c.delta = 0 THEN "Raises" ELSE "Any")
      [] fv = "valid" -> IF c.delta = 0 THEN "Opens" ELSE "Raises"

(* The verdict concerns the directory the operating system resolves the given path to, whatever *)
(* the spelling: "plain", or "dotdot" = <dir>/<link>/../<name> where <link> is a symbolic link  *)
(* to a directory elsewhere, so that the lexically simplified path (<dir>/<name>, where a valid *)
(* decoy array lives) differs from the resolved one (next to the link's target).                *)
PathForms == {"plain", "dotdot"}
Rows == {[c |-> c, array |-> Verdict(c, "Array"), open |-> Verdict(c, "open"), forms |-> PathForms] : c \in Cases}

(* sanity properties of the table itself, checked by TLC as ASSUMEs *)
OpenRejectsInvalid ==
  \A c \in Cases : (c.file # "dict" \/ (c.delta # 0 /\ FieldVerdict(c.field, c.token) = "valid"))
                      => Verdict(c, "Array") = "Raises" /\ Verdict(c, "open") = "Raises"
ASSUME OpenRejectsInvalid
ASSUME \A c \in Cases : Verdict(c, "Array") \in {"Raises", "Opens", "Any"}
=============================================================================
