------------------------------ MODULE Archive ------------------------------
(* C15: archive() writes a snapshot and never replaces an existing archive   *)
(* unless overwrite=True.                                                    *)
EXTENDS Integers, FiniteSets

(* archive(): expected outcome per case *)
ArchiveRows == {[kind |-> k, comp |-> cp, overwrite |-> ow, preexisting |-> pre, given |-> gv,
                 out |-> IF pre /\ ~ow THEN "Raises" ELSE "ok"] :
                  k \in {"Array", "RaggedArray"}, cp \in {"xz", "gz", "bz2"}, ow \in BOOLEAN, pre \in BOOLEAN,
                  gv \in BOOLEAN}
=============================================================================
