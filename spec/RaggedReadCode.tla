--------------------------- MODULE RaggedReadCode ---------------------------
(***************************************************************************)
(* C07: generated read code for RaggedArrays.  A ragged plan is            *)
(*   [lang, idx, val, acc, ex]                                             *)
(* idx / val: read plans (ReadCode) of the indices and values arrays;      *)
(* acc: the subarray accessor - index origin, which axis of i carries k,   *)
(* what is added to start and end, whether the end is inclusive, how many  *)
(* placeholders precede the range, and an explicit guard for empty         *)
(* subarrays; ex: the example statement.                                   *)
(* The stored ragged array: atom, value numtype/byte order, index numtype, *)
(* and the index rows <<start, end>> (0-based, half-open).                 *)
(* RangeMeaning says what lo:hi (lo..hi, lo;;hi) selects in each language, *)
(* in particular when lo = hi + 1, which is how an empty subarray looks.   *)
(***************************************************************************)
EXTENDS ReadCode

RowMajorLangs == {"mathematica"}
(* selection of 1-based (origin-based) inclusive range lo..hi *)
RangeMeaning(lang, lo, hi) ==
  IF lo <= hi THEN [k \in 1..(hi - lo + 1) |-> lo + k - 1]
  ELSE CASE lang = "R" -> [k \in 1..(lo - hi + 1) |-> lo - k + 1]        \* R counts downwards: 3:2 is c(3, 2)
         [] lang = "idl" -> <<-1>>                                          \* error: illegal subscript range
         [] OTHER -> IF lo = hi + 1 THEN <<>> ELSE <<-1>>

(* Arithmetic on an index value that still has the integer class of the index  *)
(* file (acc.arith = "class": Matlab fread '*uint8', Scilab mgeti keep the class *)
(* and the accessor computes i(1,k)+1 in it): Matlab saturates, Scilab wraps.  *)
(* Julia promotes to Int64 with the literal, IDL promotes byte to int, R reads  *)
(* into 32-bit integers or doubles, Mathematica and Maple are exact.  Only the  *)
(* 8- and 16-bit classes are modelled: the wider ones cannot reach their        *)
(* maximum with the array sizes explored here.                                  *)
IBits(t) == CASE t \in {"int8", "uint8"} -> 8 [] t \in {"int16", "uint16"} -> 16 [] OTHER -> 0
ISigned(t) == t \in {"int8", "int16"}
IMin(t) == IF ISigned(t) THEN -(2 ^ (IBits(t) - 1)) ELSE 0
IMax(t) == IF ISigned(t) THEN 2 ^ (IBits(t) - 1) - 1 ELSE 2 ^ IBits(t) - 1
ClassAdd(lang, t, x, d) ==
  IF IBits(t) = 0 THEN x + d
  ELSE CASE lang = "matlab" -> (IF x + d > IMax(t) THEN IMax(t) ELSE IF x + d < IMin(t) THEN IMin(t) ELSE x + d)
         [] lang = "scilab" -> ((x + d - IMin(t)) % (2 ^ IBits(t))) + IMin(t)
         [] OTHER -> x + d
IdxAdd(rp, st, x, d) == IF rp.acc.arith = "class" THEN ClassAdd(rp.lang, st.inumtype, x, d) ELSE x + d

(* 0-based rows of the values array that the accessor returns for index row <<s, e>> *)
Select(rp, st, s, e) ==
  LET a == rp.acc
      lo == IdxAdd(rp, st, s, a.startadd)
      hi == IdxAdd(rp, st, e, a.endadd)
  IN IF a.guard = "empty_if_start_gt_end" /\ lo > hi THEN <<>>
     ELSE IF a.guard = "empty_if_start_ge_end" /\ lo >= hi THEN <<>>
     ELSE IF a.guard = "empty_if_equal" /\ s = e THEN <<>>
     ELSE IF a.endincl
          THEN LET r == RangeMeaning(rp.lang, lo, hi) IN [k \in 1..Len(r) |-> r[k] - a.origin]
          ELSE [k \in 1..(IF hi > lo THEN hi - lo ELSE 0) |-> lo + k - 1 - a.origin]
Want(s, e) == [k \in 1..(e - s) |-> s + k - 1]

(* st = [atom, numtype, bo, inumtype, ibo, rows] *)
NRows(st) == IF st.rows = <<>> THEN 0 ELSE st.rows[Len(st.rows)][2]
ValStored(st) == [numtype |-> st.numtype, bo |-> st.bo, shape |-> <<NRows(st)>> \o st.atom]
IdxStored(st) == [numtype |-> st.inumtype, bo |-> st.ibo, shape |-> <<Len(st.rows), 2>>]

AccessorOK(rp, st) ==
  /\ \A k \in 1..Len(st.rows) : Select(rp, st, st.rows[k][1], st.rows[k][2]) = Want(st.rows[k][1], st.rows[k][2])
  (* k-th subarray (1-based) is looked up at language index k - 1 + origin along the axis that carries k *)
  /\ (IF rp.lang \in RowMajorLangs THEN rp.acc.kaxis = "first" ELSE rp.acc.kaxis = "second")
  /\ (IF rp.lang \in RowMajorLangs THEN rp.acc.nplace = 0 ELSE rp.acc.nplace = Len(st.atom))
(* the explicit empty value (where the language gives it dimensions) has the atom's dimensions *)
(* in that language's axis order, with a zero-length variable axis                            *)
EmptyDimsOK(rp, st) ==
  rp.acc.emptydims = <<-1>> \/ rp.acc.emptydims = Rev(st.atom) \o <<0>>
(* the example binds an existing subarray, the one its comment announces *)
Ordinal(w) == CASE w = "first" -> 0 [] w = "second" -> 1 [] w = "third" -> 2 [] OTHER -> -1
ExampleOK(rp, st) ==
  LET n == Len(st.rows) k0 == rp.ex.k - rp.acc.origin IN
  /\ rp.ex.bindok
  /\ rp.ex.k = rp.ex.kcomment
  /\ Ordinal(rp.ex.ordinal) = k0
  /\ (n > 0 => (0 <= k0 /\ k0 < n))

RaggedFail(rp, st) ==
  IF ~Correct(rp.idx, IdxStored(st)) THEN "indices:" \o FailClause(rp.idx, IdxStored(st))
  ELSE IF NRows(st) > 0 /\ ~Correct(rp.val, ValStored(st)) THEN "values:" \o FailClause(rp.val, ValStored(st))
  ELSE IF ~AccessorOK(rp, st) THEN "accessor"
  ELSE IF ~EmptyDimsOK(rp, st) THEN "emptydims"
  ELSE IF ~ExampleOK(rp, st) THEN "example"
  ELSE "ok"

(* which ragged read code is offered: values and index type must both be readable; *)
(* R reads int64 indices (values below 2^31) although it has no int64 arrays        *)
RaggedLangs == {"darr", "idl", "julia", "maple", "mathematica", "matlab", "numpymemmap", "R", "scilab"}
ArrayLang(l) == IF l = "julia" THEN "julia_ver1" ELSE l
IndexTypes == {"int8", "uint8", "int16", "uint16", "int32", "uint32", "int64"}
RaggedOffered(l, vt, it, atomrank) ==
  /\ Offered(ArrayLang(l), vt, atomrank + 1)
  /\ (Offered(ArrayLang(l), it, 2) \/ (l = "R" /\ it = "int64"))
RaggedOfferedRows == {[lang |-> l, numtype |-> vt, indextype |-> it, atomrank |-> r,
                       offered |-> RaggedOffered(l, vt, it, r)] :
                        l \in RaggedLangs, vt \in NumTypes, it \in IndexTypes, r \in 0..3}
=============================================================================
