----------------------------- MODULE TraceRagged -----------------------------
(***************************************************************************)
(* Code -> spec for RaggedArray: recorded executions of the real code are  *)
(* checked to be behaviours of spec/Ragged.tla (same scheme as TraceArray: *)
(* one event per public call with the projected post-state, internal steps *)
(* silent, Match as state constraint, one TLC register per trace).         *)
(***************************************************************************)
EXTENDS Ragged, Json, IOUtils, TLCExt

CONSTANT Focus      \* "C04", "C05", "C08", "C10" or "all"

Traces == ndJsonDeserialize(IOEnv.TRACES)
VARIABLES tid, l
tvars == <<vrows, vtail, vdescr, vreadme, irows, itail, idescr, ireadme, tdescr, treadme,
           mode, vlen, ilen, mmI, uctx, pc, ref, out, tid, l>>
Ev == Traces[tid].events

D(d) == IF d.k = "ok" THEN DOk(d.len) ELSE [k |-> d.k]
TD(d) == IF d.k = "ok" THEN TOk(d.len, d.size) ELSE [k |-> d.k]
TR(r) == IF r.k = "ok" THEN [k |-> "ok", n |-> r.n, listed |-> r.listed] ELSE [k |-> r.k]

TraceInit ==
  /\ tid \in 1..Len(Traces) /\ l = 1
  /\ LET r == Traces[tid].init.ref IN
       /\ ref = r /\ vrows = Flat(r) /\ irows = IndexRows(r, 0)
       /\ vlen = Len(Flat(r)) /\ ilen = Len(r)
       /\ vdescr = DOk(Len(Flat(r))) /\ idescr = DOk(Len(r))
       /\ vreadme = DOk(Len(Flat(r))) /\ ireadme = DOk(Len(r))
       /\ tdescr = TOk(Len(r), Len(Flat(r)))
       /\ treadme = [k |-> "ok", n |-> Len(r), listed |-> Listed(IndexRows(r, 0), Len(r)), inctx |-> FALSE]
  /\ vtail = 0 /\ itail = 0 /\ mode = Traces[tid].init.mode /\ mmI = NoMap /\ uctx = "no"
  /\ pc = Idle /\ out = "ok"

CallOf(e) ==
  CASE e.op = "RA_Call" -> RA_Call(e.cs, e.f, e.via)
    [] e.op = "RA_CallBadAppend" -> RA_CallBadAppend(e.kd)
    [] e.op = "RT_Call" -> RT_Call(e.i)
    [] e.op = "SetMode" -> SetMode(e.m)
    [] e.op = "Reopen" -> Reopen(e.m)
    [] e.op = "EnterCtx" -> EnterCtx
    [] e.op = "ExitCtx" -> ExitCtx

Internal == \/ RA_Checks \/ RA_Next \/ RA_VWrite \/ RA_IWrite \/ RA_RollbackV \/ RA_RollbackI
            \/ RA_Close \/ RA_ULenI \/ RA_Done
            \/ UL_Cache \/ UL_JsonTrunc \/ UL_JsonWrite \/ UL_ReadmeTrunc \/ UL_ReadmeWrite
            \/ TD_Trunc \/ TD_Write \/ TR_Trunc \/ TR_Write
            \/ RT_Checks \/ RT_IOsTruncate \/ RT_VPick \/ RT_VOsTruncate \/ RT_Done

TraceNext ==
  \/ /\ pc = Idle /\ l <= Len(Ev) /\ CallOf(Ev[l]) /\ l' = l + 1 /\ UNCHANGED tid
  \/ /\ pc # Idle /\ Internal /\ UNCHANGED <<tid, l>>
TraceSpec == TraceInit /\ [][TraceNext]_tvars

OutAgrees(specout, logged) == (specout = "ok") = (logged = "ok")
F(p) == Focus \in {p, "all"}
Match ==
  (pc = Idle /\ l > 1) =>
     LET p == Ev[l - 1].post IN
     /\ ((F("C04") \/ F("C10")) => /\ OpenOutcome = p.fresh /\ ilen = p.len
                                   /\ (mode = "r+" => OutAgrees(out, p.out)))
     /\ mode = p.mode
     /\ ((F("C05") \/ F("C10")) => /\ vrows = p.vrows /\ vtail = p.vtail /\ vdescr = D(p.vdescr)
                                   /\ irows = p.irows /\ itail = p.itail /\ idescr = D(p.idescr)
                                   /\ tdescr = TD(p.tdescr))
     /\ (F("C08") => /\ NoGhost(treadme) = TR(p.treadme) /\ vreadme = D(p.vreadme) /\ ireadme = D(p.ireadme))
Progress == (pc = Idle /\ Match) => TLCSet(tid, IF TLCGet(tid) < l THEN l ELSE TLCGet(tid))
Constraint == Match /\ Progress
ASSUME \A t \in 1..Len(Traces) : TLCSet(t, 0)
Report == [t \in 1..Len(Traces) |-> TLCGet(t)]
Post == PrintT(<<"TRACEREPORT", Report>>)
=============================================================================
