------------------------------- MODULE Array -------------------------------
(***************************************************************************)
(* Step-level model of one darr.Array directory and one live handle.       *)
(*                                                                         *)
(* Disk   rows, tail   arrayvalues.bin = complete first-axis rows + bytes  *)
(*                     of a torn trailing row                              *)
(*        descr        arraydescription.json: torn or [len]                *)
(*                     (numtype, byteorder, trailing shape, arrayorder,    *)
(*                     darrobject never change during a history; the       *)
(*                     harness checks them as constants of the run)        *)
(*        readme       README.txt: absent / torn / the facts it states     *)
(*        meta         metadata.json: absent / torn / a key->value map     *)
(* Handle mode, hlen   Array._accessmode, Array._shape[0] (cached)         *)
(*        mmode        MetaData._accessmode (follows mode when that is      *)
(*                     assigned; can also be set on the metadata object)   *)
(*        cx           the shared memory map kept open by an open_array()   *)
(*                     context (or a suspended iterchunks generator):      *)
(*                     [on, mode, len] - whether one is open, the access   *)
(*                     mode it was opened with, and the array length it    *)
(*                     was opened for.  While it is open every read and    *)
(*                     element write of the handle goes through THAT map.  *)
(* Control pc          program point inside a public call; one action per  *)
(*                     file-system effect, in the order of the code        *)
(* Ghost  ref, refmeta the NumPy / dict model the properties compare with  *)
(*        out, ret     outcome class / returned value of the last call     *)
(*                                                                         *)
(* Code map: IA_* = Array.iterappend/append/_append; UL_* = _update_len    *)
(* (= _update_arrayinfo -> utils.write_jsonfile, then _update_readmetxt -> *)
(* DataDir._write_txt); TR_* = truncate_array; SI = __setitem__;           *)
(* M_* = MetaData.update/pop/popitem/__setitem__/__delitem__;              *)
(* RM_* = the README callback after metadata creation/deletion.            *)
(***************************************************************************)
EXTENDS Integers, Sequences, FiniteSets, TLC, SequencesExt, PySlice

CONSTANTS RowIds, MaxRows, RowBytes, MaxChunkLen, MaxChunks, TruncArgs,
          SetIdx, Keys, Vals, Ops, Faults, Crashes, InitLens, InitModes,
          InitMetas

VARIABLES rows, tail, descr, readme, meta, mode, mmode, hlen, cx, pc, ref, refmeta, out, ret, gone

disk == <<rows, tail, descr, readme, meta, gone>>
vars == <<rows, tail, descr, readme, meta, mode, mmode, hlen, cx, pc, ref, refmeta, out, ret, gone>>

Idle == [op |-> "idle"]
NoCtx == [on |-> FALSE, mode |-> "r", len |-> 0]
Raises == <<-1>>                      \* "opening raises", as a row sequence
NoMeta == [k \in Keys |-> 0]          \* 0 = key not present
MRaises == [k \in Keys |-> -1]
MAbsent == [k |-> "absent"]
MTorn == [k |-> "torn"]
MOk(m) == [k |-> "ok", d |-> m]
DOk(n) == [k |-> "ok", len |-> n]
DTorn == [k |-> "torn"]
ROk(n, hm) == [k |-> "ok", len |-> n, hasmeta |-> hm]
RTorn == [k |-> "torn"]

Chunks == UNION {[1..n -> RowIds] : n \in 0..MaxChunkLen}
ChunkLists == UNION {[1..n -> Chunks] : n \in 0..MaxChunks}
RECURSIVE Flat(_)
Flat(cs) == IF cs = <<>> THEN <<>> ELSE Head(cs) \o Flat(Tail(cs))
CLPrefixes(cs) == {SubSeq(cs, 1, j) : j \in 0..Len(cs)}

NoFault == [kind |-> "none"]
(* fault plans for an iterappend call consuming the chunk list cs:         *)
(*  raise/shape/rank/conv at p: items 1..p-1 are cs, item p is bad         *)
(*  write at p, k, b: the write of chunk p stops after k rows + b bytes    *)
FaultPlans(cs) ==
  IF ~Faults THEN {NoFault} ELSE
  {NoFault}
  \cup {[kind |-> kd, at |-> Len(cs) + 1] : kd \in {"raise", "shape", "rank", "conv"}}
  \cup (IF cs # <<>> /\ Len(cs[Len(cs)]) > 0
        THEN {[kind |-> "write", at |-> Len(cs), k |-> k, b |-> b] :
                 k \in 0..(Len(cs[Len(cs)]) - 1), b \in 0..(RowBytes - 1)}
        ELSE {})

(***************************************************************************)
(* What a fresh open of the directory yields (Array.__init__:              *)
(* _check_arrayinfoconsistency + _open_array).                             *)
(***************************************************************************)
OpenOutcome == IF gone \/ descr.k # "ok" THEN Raises
               ELSE IF Len(rows) # descr.len \/ tail # 0 THEN Raises
               ELSE rows
MetaOutcome == IF meta.k = "absent" THEN NoMeta
               ELSE IF meta.k = "torn" THEN MRaises ELSE meta.d
MetaLen(m) == Cardinality({k \in Keys : m[k] # 0})
CurStamp == ROk(descr.len, MetaLen(MetaOutcome) > 0)

Init == /\ \E n \in InitLens : \E r \in [1..n -> RowIds] :
             /\ rows = r /\ ref = r /\ hlen = n /\ descr = DOk(n)
             /\ \E m \in InitMetas :
                  /\ refmeta = m
                  /\ meta = IF MetaLen(m) = 0 THEN MAbsent ELSE MOk(m)
                  /\ readme = ROk(n, MetaLen(m) > 0)
        /\ tail = 0 /\ mode \in InitModes /\ mmode = mode /\ cx = NoCtx
        /\ pc = Idle /\ out = "ok" /\ ret = 0 /\ gone = FALSE

Return(o) == /\ pc' = Idle /\ out' = o
Goto(a) == pc' = [pc EXCEPT !.at = a]
At(op, a) == pc.op = op /\ pc.at = a

(***************************************************************************)
(* _update_len(inc): cache the shape, rewrite the JSON, rewrite the README *)
(***************************************************************************)
EnterUL(inc, retat) == pc' = [pc EXCEPT !.at = "ul_cache", !.inc = inc, !.ret = retat]
UL_Cache == /\ pc.op # "idle" /\ pc.op # "crashed" /\ pc.at = "ul_cache"
            /\ hlen' = hlen + pc.inc /\ Goto("ul_jt")
            /\ UNCHANGED <<disk, mode, mmode, cx, ref, refmeta, out, ret>>
UL_JsonTrunc == /\ pc.op # "idle" /\ pc.op # "crashed" /\ pc.at = "ul_jt"
                /\ descr' = DTorn /\ Goto("ul_jw")
                /\ UNCHANGED <<rows, tail, readme, meta, mode, mmode, hlen, cx, ref, refmeta, out, ret, gone>>
UL_JsonWrite == /\ pc.op # "idle" /\ pc.op # "crashed" /\ pc.at = "ul_jw"
                /\ descr' = DOk(hlen) /\ Goto("ul_rt")
                /\ UNCHANGED <<rows, tail, readme, meta, mode, mmode, hlen, cx, ref, refmeta, out, ret, gone>>
UL_ReadmeTrunc == /\ pc.op # "idle" /\ pc.op # "crashed" /\ pc.at = "ul_rt"
                  /\ readme' = RTorn /\ Goto("ul_rw")
                  /\ UNCHANGED <<rows, tail, descr, meta, mode, mmode, hlen, cx, ref, refmeta, out, ret, gone>>
UL_ReadmeWrite == /\ pc.op # "idle" /\ pc.op # "crashed" /\ pc.at = "ul_rw"
                  /\ readme' = CurStamp /\ Goto(pc.ret)
                  /\ UNCHANGED <<rows, tail, descr, meta, mode, mmode, hlen, cx, ref, refmeta, out, ret, gone>>

(***************************************************************************)
(* iterappend / append                                                     *)
(***************************************************************************)
IA_Call(cs, f, via) ==
  /\ pc = Idle /\ ~gone /\ "append" \in Ops
  /\ via \in {"append", "iterappend", "noniter"}
  /\ via = "append" => (Len(cs) = 1 /\ f.kind \in {"none", "write"})
  /\ via = "noniter" => cs = <<>> /\ f = NoFault
  /\ Len(ref) + Len(Flat(cs)) <= MaxRows
  /\ pc' = [op |-> "ia", at |-> "checks", cs |-> cs, f |-> f, via |-> via, idx |-> 1, done |-> 0,
            inc |-> 0, ret |-> "", pre |-> rows,
            legit |-> {rows \o Flat(p) : p \in CLPrefixes(cs)}, legitmeta |-> {refmeta}]
  /\ UNCHANGED <<disk, mode, mmode, hlen, cx, ref, refmeta, out, ret>>

(* a single bad item given to append(): modelled as iterappend of one bad item *)
IA_CallBadAppend(kd) ==
  /\ pc = Idle /\ ~gone /\ "append" \in Ops /\ Faults /\ kd \in {"shape", "rank", "conv"}
  /\ pc' = [op |-> "ia", at |-> "checks", cs |-> <<>>, f |-> [kind |-> kd, at |-> 1], via |-> "append",
            idx |-> 1, done |-> 0, inc |-> 0, ret |-> "", pre |-> rows,
            legit |-> {rows}, legitmeta |-> {refmeta}]
  /\ UNCHANGED <<disk, mode, mmode, hlen, cx, ref, refmeta, out, ret>>

(* accessmode check, iterability check, check_arraywriteable *)
IA_Checks == /\ At("ia", "checks")
             /\ IF mode # "r+" THEN Return("OSError")
                ELSE IF pc.via = "noniter" THEN Return("TypeError")
                ELSE IF cx.on /\ cx.mode # "r+" THEN Return("OSError")    \* check_arraywriteable looks at the open map
                ELSE IF hlen = 0 THEN Goto("e_next") /\ out' = out
                ELSE Goto("next") /\ out' = out
             /\ UNCHANGED <<disk, mode, mmode, hlen, cx, ref, refmeta, ret>>

BadItemHere == pc.f.kind \in {"raise", "shape", "rank", "conv"} /\ pc.f.at = pc.idx
NoMore == pc.idx > Len(pc.cs)

(* empty-array path: the first chunk is written by path (truncating rewrite) *)
IA_EmptyNext ==
  /\ At("ia", "e_next")
  /\ IF BadItemHere /\ pc.f.kind = "raise" THEN Return("Raises")
     ELSE IF BadItemHere THEN Return("Raises")           \* _checkarrayforappend rejects it
     ELSE IF NoMore THEN Return("ok")                     \* empty iterable: nothing to do
     ELSE Goto("e_write") /\ out' = out
  /\ UNCHANGED <<disk, mode, mmode, hlen, cx, ref, refmeta, ret>>

WriteFaultHere == pc.f.kind = "write" /\ pc.f.at = pc.idx

IA_EmptyWrite ==
  /\ At("ia", "e_write")
  /\ LET c == pc.cs[pc.idx] IN
     IF WriteFaultHere
     THEN /\ rows' = SubSeq(c, 1, pc.f.k) /\ tail' = pc.f.b
          /\ Goto("e_rec") /\ UNCHANGED ref
     ELSE /\ rows' = c /\ tail' = 0 /\ ref' = ref \o c
          /\ pc' = [pc EXCEPT !.at = "ul_cache", !.inc = Len(c), !.ret = "next", !.idx = pc.idx + 1]
  /\ UNCHANGED <<descr, readme, meta, mode, mmode, hlen, cx, refmeta, out, ret, gone>>

(* recovery of the empty path: cut the file back to nothing, raise *)
IA_EmptyRecover == /\ At("ia", "e_rec")
                   /\ rows' = <<>> /\ tail' = 0 /\ Return("AppendDataError")
                   /\ UNCHANGED <<descr, readme, meta, mode, mmode, hlen, cx, ref, refmeta, ret, gone>>

(* the for-loop of iterappend: next(), _checkarrayforappend, seek/tofile/flush *)
IA_Next == /\ At("ia", "next")
           /\ IF BadItemHere THEN Goto("ul_cache_rec")
              ELSE IF NoMore THEN pc' = [pc EXCEPT !.at = "ul_cache", !.inc = pc.done, !.ret = "done"]
              ELSE Goto("write")
           /\ UNCHANGED <<disk, mode, mmode, hlen, cx, ref, refmeta, out, ret>>

IA_Write == /\ At("ia", "write")
            /\ LET c == pc.cs[pc.idx] IN
               IF WriteFaultHere
               THEN /\ rows' = rows \o SubSeq(c, 1, pc.f.k) /\ tail' = pc.f.b
                    /\ Goto("ul_cache_rec") /\ UNCHANGED ref
               ELSE /\ rows' = rows \o c /\ tail' = 0 /\ ref' = ref \o c
                    /\ pc' = [pc EXCEPT !.at = "next", !.idx = pc.idx + 1, !.done = pc.done + Len(c)]
            /\ UNCHANGED <<descr, readme, meta, mode, mmode, hlen, cx, refmeta, out, ret, gone>>

(* except-branch: flush, _update_len(done), fd.truncate(size*itemsize), raise *)
IA_RecStart == /\ At("ia", "ul_cache_rec")
               /\ pc' = [pc EXCEPT !.at = "ul_cache", !.inc = pc.done, !.ret = "rec_trunc"]
               /\ UNCHANGED <<disk, mode, mmode, hlen, cx, ref, refmeta, out, ret>>
IA_RecTruncate == /\ At("ia", "rec_trunc")
                  /\ rows' = SubSeq(rows, 1, hlen) /\ tail' = 0
                  /\ Return("AppendDataError")
                  /\ UNCHANGED <<descr, readme, meta, mode, mmode, hlen, cx, ref, refmeta, ret, gone>>
IA_Done == /\ At("ia", "done") /\ Return("ok")
           /\ UNCHANGED <<disk, mode, mmode, hlen, cx, ref, refmeta, ret>>

(* a process death in the middle of a data write leaves any prefix of it *)
IA_WriteCrash(k, b) ==
  /\ Crashes /\ pc.op = "ia" /\ pc.at \in {"write", "e_write"} /\ ~NoMore
  /\ LET c == pc.cs[pc.idx] IN
       /\ k * RowBytes + b < Len(c) * RowBytes
       /\ rows' = (IF pc.at = "write" THEN rows ELSE <<>>) \o SubSeq(c, 1, k) /\ tail' = b
  /\ pc' = [op |-> "crashed", legit |-> pc.legit, legitmeta |-> pc.legitmeta]
  /\ UNCHANGED <<descr, readme, meta, mode, mmode, hlen, cx, ref, refmeta, out, ret, gone>>

(***************************************************************************)
(* truncate_array(a, index)                                                *)
(***************************************************************************)
NonInt == 777777
TR_Call(i) ==
  /\ pc = Idle /\ ~gone /\ "truncate" \in Ops /\ i \in TruncArgs \cup {NonInt}
  /\ ~cx.on        \* cutting the file under an open map is not modelled (reads beyond the end of the file)
  /\ LET nl == IF i = NonInt THEN -1 ELSE TruncLen(i, Len(rows)) IN
     pc' = [op |-> "tr", at |-> "checks", i |-> i, inc |-> 0, ret |-> "", pre |-> rows,
            legit |-> {rows} \cup (IF 0 <= nl /\ nl < Len(rows) THEN {SubSeq(rows, 1, nl)} ELSE {}),
            legitmeta |-> {refmeta}]
  /\ UNCHANGED <<disk, mode, mmode, hlen, cx, ref, refmeta, out, ret>>
TR_Checks ==
  /\ At("tr", "checks")
  /\ IF mode # "r+" THEN Return("OSError")
     ELSE IF pc.i = NonInt THEN Return("TypeError")
     ELSE LET nl == TruncLen(pc.i, descr.len) IN
          IF 0 <= nl /\ nl < hlen THEN pc' = [pc EXCEPT !.at = "os", !.inc = nl - hlen] /\ out' = out
          ELSE Return("IndexError")
  /\ UNCHANGED <<disk, mode, mmode, hlen, cx, ref, refmeta, ret>>
TR_OsTruncate ==
  /\ At("tr", "os")
  /\ rows' = SubSeq(rows, 1, hlen + pc.inc) /\ tail' = 0
  /\ ref' = SubSeq(ref, 1, hlen + pc.inc)
  /\ pc' = [pc EXCEPT !.at = "ul_cache", !.ret = "done"]
  /\ UNCHANGED <<descr, readme, meta, mode, mmode, hlen, cx, refmeta, out, ret, gone>>
TR_Done == /\ At("tr", "done") /\ Return("ok")
           /\ UNCHANGED <<disk, mode, mmode, hlen, cx, ref, refmeta, ret>>

(***************************************************************************)
(* a[i] = row, accessmode assignment, reopening                            *)
(***************************************************************************)
SetItem(i, id) ==
  /\ pc = Idle /\ ~gone /\ "setitem" \in Ops /\ i \in SetIdx /\ id \in RowIds
  /\ LET p == NormIndex(i, IF cx.on THEN cx.len ELSE Len(rows)) IN
     (* __setitem__ asks check_arraywriteable, which looks at the map that is open: inside a context *)
     (* the mode the context was opened with decides, not the handle's (WriteThroughOpenMap)        *)
     IF (IF cx.on THEN cx.mode # "r+" ELSE mode # "r+") THEN out' = "OSError" /\ UNCHANGED <<rows, ref>>
     ELSE IF p = IndexErr THEN out' = "IndexError" /\ UNCHANGED <<rows, ref>>
     ELSE /\ rows' = [rows EXCEPT ![p + 1] = id] /\ ref' = [ref EXCEPT ![p + 1] = id]
          /\ out' = "ok"
  /\ UNCHANGED <<tail, descr, readme, meta, mode, mmode, hlen, cx, pc, refmeta, ret, gone>>

SetMode(m) == /\ pc = Idle /\ ~gone /\ "mode" \in Ops /\ m \in {"r", "r+", "w"}
              /\ IF m = "w" THEN out' = "ValueError" /\ UNCHANGED <<mode, mmode>>
                 ELSE mode' = m /\ mmode' = m /\ out' = "ok"
              /\ UNCHANGED <<disk, hlen, cx, pc, ref, refmeta, ret>>

(* a.metadata.accessmode = m: the metadata object alone *)
SetMetaMode(m) == /\ pc = Idle /\ ~gone /\ "metamode" \in Ops /\ m \in {"r", "r+"}
                  /\ mmode' = m /\ out' = "ok"
                  /\ UNCHANGED <<disk, mode, hlen, cx, pc, ref, refmeta, ret>>

Reopen(m) == /\ pc = Idle /\ ~gone /\ "reopen" \in Ops /\ m \in {"r", "r+"} /\ ~cx.on
             /\ mode' = m /\ mmode' = m /\ hlen' = descr.len /\ out' = "ok"
             /\ UNCHANGED <<disk, cx, pc, ref, refmeta, ret>>

(***************************************************************************)
(* with a.open_array(accessmode=m): ... / a suspended iterchunks generator: *)
(* the first opener creates the map (for the length the handle knows, in    *)
(* the requested or the handle's mode); nested openers reuse it.  Appends   *)
(* made while it is open reach the file and the description at once; the    *)
(* map itself keeps the length it was opened for (LiveView).                *)
(***************************************************************************)
EnterCtx(m) == /\ pc = Idle /\ ~gone /\ "ctx" \in Ops /\ ~cx.on /\ m \in {"default", "r", "r+"}
               /\ cx' = [on |-> TRUE, mode |-> (IF m = "default" THEN mode ELSE m), len |-> hlen]
               /\ out' = "ok"
               /\ UNCHANGED <<disk, mode, mmode, hlen, pc, ref, refmeta, ret>>
ExitCtx == /\ pc = Idle /\ ~gone /\ "ctx" \in Ops /\ cx.on
           /\ cx' = NoCtx /\ out' = "ok"
           /\ UNCHANGED <<disk, mode, mmode, hlen, pc, ref, refmeta, ret>>
(* what a[:] of the handle shows: inside a context the rows the map was opened for *)
LiveView == IF cx.on THEN SubSeq(rows, 1, cx.len) ELSE rows

(***************************************************************************)
(* delete_array(a): refuses read-only handles; unlinks Darr's files, rmdir  *)
(***************************************************************************)
Delete == /\ pc = Idle /\ "delete" \in Ops /\ ~gone /\ ~cx.on
          /\ IF mode # "r+" THEN out' = "OSError" /\ UNCHANGED <<disk, ref, refmeta>>
             ELSE /\ gone' = TRUE /\ rows' = <<>> /\ tail' = 0 /\ descr' = DTorn
                  /\ readme' = [k |-> "absent"] /\ meta' = MAbsent
                  /\ ref' = <<>> /\ refmeta' = NoMeta /\ out' = "ok"
          /\ UNCHANGED <<mode, mmode, hlen, cx, pc, ret>>

(***************************************************************************)
(* metadata                                                                *)
(***************************************************************************)
MKinds == {"update", "setitem", "update0", "updatebad", "pop", "popd", "popitem", "del", "updateall"}
(* "updateall": one update() call that sets EVERY key (to v): the file goes from the old to the new  *)
(* dictionary in one rewrite - a state with only some of the keys changed is never on disk           *)
AllTo(v) == [q \in Keys |-> v]
M_Call(kd, k, v) ==
  /\ pc = Idle /\ ~gone /\ "meta" \in Ops /\ kd \in MKinds /\ k \in Keys /\ v \in Vals
  /\ (kd \in {"update0", "pop", "popd", "popitem", "del"} => v = CHOOSE x \in Vals : TRUE)
  /\ (kd \in {"update0", "popitem", "updateall"} => k = CHOOSE x \in Keys : TRUE)
  /\ LET posts == IF kd \in {"update", "setitem"} THEN {[refmeta EXCEPT ![k] = v]}
                  ELSE IF kd = "updateall" THEN {AllTo(v)}
                  ELSE IF kd \in {"pop", "popd", "del"} THEN {[refmeta EXCEPT ![k] = 0]}
                  ELSE IF kd = "popitem" THEN {[refmeta EXCEPT ![q] = 0] : q \in Keys}
                  ELSE {} IN
     pc' = [op |-> "m", at |-> "checks", kd |-> kd, key |-> k, v |-> v, new |-> NoMeta,
            inc |-> 0, ret |-> "",
            legit |-> {rows}, legitmeta |-> {refmeta} \cup posts]
  /\ UNCHANGED <<disk, mode, mmode, hlen, cx, ref, refmeta, out, ret>>

(* mode check, read of the file, the dict operation *)
M_Checks ==
  /\ At("m", "checks")
  /\ LET cur == MetaOutcome IN
     IF mmode # "r+" THEN Return("OSError") /\ UNCHANGED <<refmeta, ret, gone>>
     ELSE CASE pc.kd \in {"update", "setitem"} ->
                 /\ pc' = [pc EXCEPT !.at = "trunc", !.new = [cur EXCEPT ![pc.key] = pc.v], !.ret = "cb"]
                 /\ refmeta' = [cur EXCEPT ![pc.key] = pc.v] /\ UNCHANGED <<out, ret, gone>>
            [] pc.kd = "updateall" ->
                 /\ pc' = [pc EXCEPT !.at = "trunc", !.new = AllTo(pc.v), !.ret = "cb"]
                 /\ refmeta' = AllTo(pc.v) /\ UNCHANGED <<out, ret, gone>>
            [] pc.kd = "update0" ->
                 IF MetaLen(cur) = 0 THEN Return("ok") /\ UNCHANGED <<refmeta, ret, gone>>
                 ELSE /\ pc' = [pc EXCEPT !.at = "trunc", !.new = cur, !.ret = "cb"]
                      /\ UNCHANGED <<refmeta, out, ret, gone>>
            [] pc.kd = "updatebad" -> Return("TypeError") /\ UNCHANGED <<refmeta, ret, gone>>
            [] pc.kd \in {"pop", "del"} ->
                 IF cur[pc.key] = 0 THEN Return("KeyError") /\ UNCHANGED <<refmeta, ret, gone>>
                 ELSE /\ pc' = [pc EXCEPT !.at = "remove", !.new = [cur EXCEPT ![pc.key] = 0]]
                      /\ refmeta' = [cur EXCEPT ![pc.key] = 0] /\ ret' = cur[pc.key] /\ out' = out
            [] pc.kd = "popd" ->
                 IF cur[pc.key] = 0
                 THEN IF MetaLen(cur) = 0 THEN Return("ok") /\ ret' = -1 /\ UNCHANGED refmeta
                      ELSE /\ pc' = [pc EXCEPT !.at = "trunc", !.new = cur, !.ret = "done"]
                           /\ ret' = -1 /\ UNCHANGED <<refmeta, out, gone>>
                 ELSE /\ pc' = [pc EXCEPT !.at = "remove", !.new = [cur EXCEPT ![pc.key] = 0]]
                      /\ refmeta' = [cur EXCEPT ![pc.key] = 0] /\ ret' = cur[pc.key] /\ out' = out
            [] pc.kd = "popitem" ->
                 IF MetaLen(cur) = 0 THEN Return("KeyError") /\ UNCHANGED <<refmeta, ret, gone>>
                 ELSE \E q \in Keys : /\ cur[q] # 0
                        /\ pc' = [pc EXCEPT !.at = "remove", !.key = q, !.new = [cur EXCEPT ![q] = 0]]
                        /\ refmeta' = [cur EXCEPT ![q] = 0] /\ ret' = cur[q] /\ out' = out
  /\ UNCHANGED <<disk, mode, mmode, hlen, cx, ref>>

(* after a removal: rewrite when something is left, else unlink + README *)
M_Remove == /\ At("m", "remove")
            /\ IF MetaLen(pc.new) > 0 THEN pc' = [pc EXCEPT !.at = "trunc", !.ret = "done"]
               ELSE Goto("unlink")
            /\ UNCHANGED <<disk, mode, mmode, hlen, cx, ref, refmeta, out, ret>>
M_Trunc == /\ At("m", "trunc") /\ meta' = MTorn /\ Goto("write")
           /\ UNCHANGED <<rows, tail, descr, readme, mode, mmode, hlen, cx, ref, refmeta, out, ret, gone>>
M_Write == /\ At("m", "write") /\ meta' = MOk(pc.new) /\ Goto(pc.ret)
           /\ UNCHANGED <<rows, tail, descr, readme, mode, mmode, hlen, cx, ref, refmeta, out, ret, gone>>
M_Unlink == /\ At("m", "unlink") /\ meta' = MAbsent /\ Goto("cb")
            /\ UNCHANGED <<rows, tail, descr, readme, mode, mmode, hlen, cx, ref, refmeta, out, ret, gone>>
(* callatfilecreationordeletion = Array._update_readmetxt *)
RM_Trunc == /\ At("m", "cb") /\ readme' = RTorn /\ Goto("cbw")
            /\ UNCHANGED <<rows, tail, descr, meta, mode, mmode, hlen, cx, ref, refmeta, out, ret, gone>>
RM_Write == /\ At("m", "cbw") /\ readme' = CurStamp /\ Goto("done")
            /\ UNCHANGED <<rows, tail, descr, meta, mode, mmode, hlen, cx, ref, refmeta, out, ret, gone>>
M_Done == /\ At("m", "done") /\ Return("ok")
          /\ UNCHANGED <<disk, mode, mmode, hlen, cx, ref, refmeta, ret>>

(***************************************************************************)
(* process death                                                           *)
(***************************************************************************)
Crash == /\ Crashes /\ pc.op \notin {"idle", "crashed"}
         /\ pc' = [op |-> "crashed", legit |-> pc.legit, legitmeta |-> pc.legitmeta]
         /\ UNCHANGED <<disk, mode, mmode, hlen, cx, ref, refmeta, out, ret>>

Next == \/ \E cs \in ChunkLists : \E f \in FaultPlans(cs) :
             \E via \in {"append", "iterappend"} : IA_Call(cs, f, via)
        \/ IA_Call(<<>>, NoFault, "noniter")
        \/ \E kd \in {"shape", "rank", "conv"} : IA_CallBadAppend(kd)
        \/ IA_Checks \/ IA_EmptyNext \/ IA_EmptyWrite \/ IA_EmptyRecover
        \/ IA_Next \/ IA_Write \/ IA_RecStart \/ IA_RecTruncate \/ IA_Done
        \/ \E k \in 0..MaxChunkLen, b \in 0..(RowBytes - 1) : IA_WriteCrash(k, b)
        \/ UL_Cache \/ UL_JsonTrunc \/ UL_JsonWrite \/ UL_ReadmeTrunc \/ UL_ReadmeWrite
        \/ \E i \in TruncArgs \cup {NonInt} : TR_Call(i)
        \/ TR_Checks \/ TR_OsTruncate \/ TR_Done
        \/ \E i \in SetIdx, id \in RowIds : SetItem(i, id)
        \/ \E m \in {"r", "r+", "w"} : SetMode(m)
        \/ \E m \in {"r", "r+"} : Reopen(m)
        \/ \E m \in {"r", "r+"} : SetMetaMode(m)
        \/ \E kd \in MKinds, k \in Keys, v \in Vals : M_Call(kd, k, v)
        \/ M_Checks \/ M_Remove \/ M_Trunc \/ M_Write \/ M_Unlink \/ RM_Trunc \/ RM_Write \/ M_Done
        \/ Delete
        \/ \E m \in {"default", "r", "r+"} : EnterCtx(m)
        \/ ExitCtx
        \/ Crash

Spec == Init /\ [][Next]_vars

(***************************************************************************)
(* Properties                                                              *)
(***************************************************************************)
Quiescent == pc = Idle /\ ~gone

(* C02: the files alone describe the array *)
WellFormedArray == Quiescent => /\ descr.k = "ok" /\ tail = 0 /\ Len(rows) = descr.len
                         /\ readme.k # "absent"
(* C03: disk, cached handle state and a fresh open all equal the model *)
Model_Array == Quiescent => /\ rows = ref /\ hlen = Len(ref) /\ OpenOutcome = ref
(* C03: append never changes stored rows; truncate keeps the leading prefix *)
AppendKeepsPrefix == pc.op = "ia" => IsPrefix(pc.pre, rows) \/ (pc.pre = <<>>)
TruncKeepsPrefix == pc.op = "tr" => IsPrefix(rows, pc.pre)
(* C08 *)
Readme_Current == Quiescent => readme = CurStamp
(* C13 *)
Meta_Model == Quiescent => /\ MetaOutcome = refmeta
                           /\ (meta.k = "ok") = (MetaLen(refmeta) > 0)
                           /\ meta.k # "torn"
(* C09: a failed append leaves the completed chunks (the ghost is extended  *)
(* only when a chunk has been written completely)                           *)
FailedAppendExact == (Quiescent /\ out = "AppendDataError") =>
                        /\ rows = ref /\ tail = 0 /\ descr = DOk(Len(ref)) /\ hlen = Len(ref)
(* C11 *)
ReadOnly == [][(mode = "r" /\ mode' = "r" /\ mmode = "r" /\ mmode' = "r" /\ ~cx.on) => UNCHANGED disk]_vars
(* C17 *)
CrashSafe == pc.op = "crashed" =>
               /\ (OpenOutcome = Raises \/ OpenOutcome \in pc.legit)
               /\ (MetaOutcome = MRaises \/ MetaOutcome \in pc.legitmeta)
(* C11 speaks of handles without an open context; with one open, element writes follow the mode   *)
(* of the context (WriteThroughOpenMap): TLC must find ReadOnlyAlways violated when "ctx" \in Ops   *)
ReadOnlyAlways == [][(mode = "r" /\ mode' = "r" /\ mmode = "r" /\ mmode' = "r") => UNCHANGED disk]_vars
CtxOK == cx.on => (cx.len <= Len(rows) /\ cx.len <= hlen)
TypeOK == /\ tail \in 0..(RowBytes - 1) /\ hlen \in 0..MaxRows
          /\ Len(rows) <= MaxRows + MaxChunkLen
=============================================================================
