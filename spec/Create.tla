------------------------------- MODULE Create -------------------------------
(***************************************************************************)
(* C01 / C15: how asarray, create_array and copy cut their input into      *)
(* first-axis chunks, and what the result must be.                         *)
(*                                                                         *)
(* An input of n rows is the sequence 0..n-1 of row numbers; a creation    *)
(* writes the chunks one after the other, so the stored array is the       *)
(* concatenation of the chunks.  Result(form, n, c) is the sequence of     *)
(* source row numbers that ends up on disk; ChunkInvariance says it is the *)
(* identity for every chunklen.  The chunkers mirror _archunkgenerator     *)
(* (sequence branch: fit_frames + array[-remainder:]; Array branch:        *)
(* iterchunks; iterator branch: the caller's chunks; scalar) and           *)
(* _fillgenerator (index grid advanced by chunklen, remainder chunk).      *)
(***************************************************************************)
EXTENDS Integers, Sequences, FiniteSets, Frames

Forms == {"ndarray", "list", "tuple", "scalar", "generator", "darr", "fill", "fillfunc"}
RowNums(a, b) == [k \in 1..(b - a) |-> a + k - 1]        \* a, a+1, ..., b-1

RECURSIVE CatS(_)
CatS(ss) == IF ss = <<>> THEN <<>> ELSE Head(ss) \o CatS(Tail(ss))

(* default chunk length (None): large enough for everything here *)
EffChunk(c, n) == IF c = NoneV THEN n + 1 ELSE IF c < 1 THEN 1 ELSE c

(* sequence branch of _archunkgenerator *)
SeqChunks(n, c0) ==
  LET c == EffChunk(c0, n) IN
  IF n = 0 THEN <<<<>>>>
  ELSE LET ff == FitFrames(n, c, c)
           nch == ff[1]
           rem == ff[3]
       IN [k \in 1..nch |-> RowNums((k - 1) * c, k * c)]
          \o (IF rem > 0 THEN <<RowNums(n - rem, n)>> ELSE <<>>)

(* Array branch: iterchunks(chunklen) of the source; an empty source yields one empty chunk *)
DarrChunks(n, c0) ==
  LET c == EffChunk(c0, n) IN
  IF n = 0 THEN <<<<>>>>
  ELSE LET fr == IterIndices(n, c, NoneV, NoneV, NoneV, TRUE)
       IN [k \in 1..Len(fr) |-> RowNums(fr[k][1], fr[k][2])]

(* iterator of chunks handed in by the caller: cut as the caller cut them (here: by c) *)
GenChunks(n, c0) == SeqChunks(n, c0)

(* _fillgenerator: nchunks, restlen = divmod(n, c); grid i += c; rest chunk[:restlen] *)
FillChunks(n, c0) ==
  LET c == EffChunk(c0, n) IN
  IF n = 0 THEN <<<<>>>>
  ELSE LET nch == n \div c
           rest == n % c
       IN [k \in 1..nch |-> RowNums((k - 1) * c, k * c)]
          \o (IF rest > 0 THEN <<RowNums(nch * c, nch * c + rest)>> ELSE <<>>)

Chunks(form, n, c) ==
  CASE form \in {"ndarray", "list", "tuple"} -> SeqChunks(n, c)
    [] form = "scalar" -> <<<<0>>>>
    [] form = "generator" -> GenChunks(n, c)
    [] form = "darr" -> DarrChunks(n, c)
    [] form \in {"fill", "fillfunc"} -> FillChunks(n, c)

Result(form, n, c) == CatS(Chunks(form, n, c))
NOf(form, n) == IF form = "scalar" THEN 1 ELSE n

ChunkInvariance(N) ==
  \A form \in Forms : \A n \in 0..N : \A c \in (1..(N + 2)) \cup {NoneV} :
     Result(form, n, c) = RowNums(0, NOf(form, n))

(***************************************************************************)
(* Which rows decide the stored element type when no dtype is given.       *)
(* Every source row has a width (1 = fits the narrow type of its kind,     *)
(* 2 = needs the wide one); converting rows together yields the widest     *)
(* (NumPy promotion).  A sequence is ONE array-like: np.asarray(x) looks   *)
(* at all of it, whatever chunklen says.  An iterator of chunks is cast to *)
(* its first chunk's type (C01).  "firstchunk" is the algorithm of the     *)
(* pinned tree for sequences (each slice converted on its own, the first   *)
(* one fixing the type): TLC must find it chunklen-dependent.              *)
(***************************************************************************)
MaxW(ws, rows) == IF \E k \in 1..Len(rows) : ws[rows[k] + 1] = 2 THEN 2 ELSE 1
DecidingRows(form, n, c, typing) ==
  IF form = "generator" \/ (form \in {"list", "tuple"} /\ typing = "firstchunk")
  THEN Chunks(form, n, c)[1] ELSE RowNums(0, n)
StoredWidth(form, ws, c, typing) == MaxW(ws, DecidingRows(form, Len(ws), c, typing))
TypeInvariance(N, typing) ==
  \A form \in {"list", "tuple"} : \A n \in 1..N : \A ws \in [1..n -> 1..2] : \A c \in (1..(N + 2)) \cup {NoneV} :
     StoredWidth(form, ws, c, typing) = MaxW(ws, RowNums(0, n))
TypeRows(N) == {[form |-> f, ws |-> ws, c |-> c, decide |-> DecidingRows(f, Len(ws), c, "whole"),
                 width |-> StoredWidth(f, ws, c, "whole")] :
                   f \in {"list", "tuple", "generator"}, ws \in UNION {[1..n -> 1..2] : n \in 1..N},
                   c \in (1..(N + 1)) \cup {NoneV}}

(* the element-type gate comes before anything is created *)
Outcome(supported) == IF supported THEN [out |-> "ok", created |-> TRUE]
                      ELSE [out |-> "TypeError", created |-> FALSE]

CreateRows(N) == {[form |-> f, n |-> n, c |-> c, supported |-> s,
             rows |-> IF s THEN Result(f, n, c) ELSE <<>>,
             nchunks |-> Len(Chunks(f, n, c)),
             out |-> Outcome(s).out, created |-> Outcome(s).created] :
              f \in Forms, n \in 0..N, c \in (1..(N + 2)) \cup {NoneV}, s \in BOOLEAN}
=============================================================================
