------------------------------- MODULE Frames -------------------------------
(***************************************************************************)
(* C14: chunk iteration.  FramesDecl is the declarative definition of the  *)
(* property text; FramesAlg is the arithmetic of Array.iterindices /       *)
(* utils.fit_frames.  TLC checks that they agree, that step = chunklen     *)
(* with remainder tiles [start, end), and writes the table of expected     *)
(* results that the harness compares with the real code.                   *)
(***************************************************************************)
EXTENDS Integers, Sequences, FiniteSets, PySlice

ValueErr == <<<<-1, -1>>>>

FullK(c, s, st, en) == {k \in 0..(en - st) : st + k * s + c <= en}

(* frames for 0 <= st < en, c >= 1, s >= 1 *)
FramesDecl(c, s, st, en, rem) ==
  LET nk == Cardinality(FullK(c, s, st, en))
      lastend == IF nk = 0 THEN st ELSE st + (nk - 1) * s + c
      nxt == st + nk * s
  IN [k \in 1..nk |-> <<st + (k - 1) * s, st + (k - 1) * s + c>>]
     \o (IF rem /\ lastend < en /\ nxt < en THEN <<<<nxt, en>>>> ELSE <<>>)

(* utils.fit_frames(totallen, chunklen, steplen) -> (nchunks, newsize, remainder) *)
FitFrames(total, chunk, step) ==
  IF chunk > total THEN <<0, 0, total>>
  ELSE LET n == ((total - chunk) \div step) + 1
           newsize == n * step + (chunk - step)
       IN <<n, newsize, total - newsize>>

(* Array.iterindices as coded *)
FramesAlg(c, s, st, en, rem) ==
  LET ff == FitFrames(en - st, c, s)
      nframes == ff[1]
      remainder == ff[3]
      framestart == st + nframes * s
  IN [k \in 1..nframes |-> <<st + (k - 1) * s, st + (k - 1) * s + c>>]
     \o (IF rem /\ remainder > 0 /\ framestart < en THEN <<<<framestart, en>>>> ELSE <<>>)

(* the public call with its defaults (NoneV) and its ValueError domain *)
IterIndices(n, c, s0, st0, en0, rem) ==
  LET s == IF s0 = NoneV THEN c ELSE s0
      st == IF st0 = NoneV THEN 0 ELSE st0
      en == IF en0 = NoneV THEN n ELSE en0
  IN IF c < 1 \/ s < 1 \/ st < 0 \/ st >= en \/ en > n THEN ValueErr
     ELSE FramesDecl(c, s, st, en, rem)

Opt(S) == S \cup {NoneV}
Rows(N) == UNION {
  {[n |-> n, c |-> c, s |-> s, st |-> st, en |-> en, rem |-> rem,
    res |-> IterIndices(n, c, s, st, en, rem)] :
     c \in 0..(n + 2), s \in Opt(0..(n + 1)), st \in Opt((-1)..n), en \in Opt(0..(n + 1)), rem \in BOOLEAN}
  : n \in 0..N}

FitRows(N) == {[total |-> t, chunk |-> c, step |-> s,
                res |-> IF c < 1 \/ (s # NoneV /\ s < 1) THEN <<-1>>
                        ELSE FitFrames(t, c, IF s = NoneV THEN c ELSE s)] :
                 t \in 0..N, c \in 0..(N + 2), s \in Opt(0..(N + 1))}

(* properties of the definitions themselves *)
Valid(N) == {<<c, s, st, en>> \in (1..(N + 2)) \X (1..(N + 1)) \X (0..N) \X (0..N) : st < en}
DeclEqAlg(N) == \A p \in Valid(N) : \A rem \in BOOLEAN :
                   FramesDecl(p[1], p[2], p[3], p[4], rem) = FramesAlg(p[1], p[2], p[3], p[4], rem)
RECURSIVE Tiles(_, _, _)
Tiles(fr, st, en) == IF fr = <<>> THEN st = en
                     ELSE Head(fr)[1] = st /\ Head(fr)[2] > st /\ Tiles(Tail(fr), Head(fr)[2], en)
ChunksConcatenate(N) == \A p \in Valid(N) : Tiles(FramesDecl(p[1], p[1], p[3], p[4], TRUE), p[3], p[4])
=============================================================================
