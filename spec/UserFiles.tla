----------------------------- MODULE UserFiles -----------------------------
(***************************************************************************)
(* The file namespace of one DataDir as a state machine (C20, and DataDir  *)
(* behaviour no listed property quantifies over: copy(), sha256checksums). *)
(*                                                                         *)
(* f     : name -> content.  "P" stands for a protected file of the array; *)
(*         the other names are user files.  A content is None, Prot, a     *)
(*         text [t |-> "txt", v |-> id] or a JSON dictionary               *)
(*         [t |-> "json", v |-> set of keys].                              *)
(* cp    : None, or the namespace of the replica made by DataDir.copy()    *)
(* out   : outcome of the last call: "ok", "Refused" (OSError because the  *)
(*         name is protected or the file exists / is missing) or "Raises"  *)
(*         (any exception: the file does not hold a JSON dictionary)       *)
(* One action per public method, as the code has them: the protection test *)
(* comes first, for delete_files over the whole list before anything goes. *)
(***************************************************************************)
EXTENDS Integers, FiniteSets, TLC

CONSTANTS UserNames, Keys, Texts

None == [t |-> "none"]
Prot == [t |-> "prot"]
Txt(v) == [t |-> "txt", v |-> v]
Json(ks) == [t |-> "json", v |-> ks]
Names == UserNames \cup {"P"}
Contents == {None} \cup {Txt(v) : v \in Texts} \cup {Json(ks) : ks \in SUBSET Keys}

VARIABLES f, cp, out
vars == <<f, cp, out>>

Init == /\ f = [n \in Names |-> IF n = "P" THEN Prot ELSE None]
        /\ cp = None /\ out = "ok"

Refuse == out' = "Refused" /\ UNCHANGED <<f, cp>>
Put(n, c) == f' = [f EXCEPT ![n] = c] /\ out' = "ok" /\ UNCHANGED cp

(* write_txt / write_jsondict (write_jsonfile has the same gate) *)
Write(n, c, ow) ==
  /\ n \in Names /\ c \in Contents \ {None} /\ ow \in BOOLEAN
  /\ IF n = "P" THEN Refuse
     ELSE IF f[n] # None /\ ~ow THEN Refuse
     ELSE Put(n, c)

(* update_jsondict: read_jsondict, dict.update, rewrite *)
Update(n, ks) ==
  /\ n \in Names /\ ks \in SUBSET Keys
  /\ IF n = "P" \/ f[n] = None THEN Refuse
     ELSE IF f[n].t # "json" THEN out' = "Raises" /\ UNCHANGED <<f, cp>>
     ELSE Put(n, Json(f[n].v \cup ks))

(* delete_files(list): a protected name anywhere refuses the whole call; missing names are skipped *)
Delete(S) ==
  /\ S \in SUBSET Names /\ S # {}
  /\ IF "P" \in S THEN Refuse
     ELSE /\ f' = [n \in Names |-> IF n \in S THEN None ELSE f[n]]
          /\ out' = "ok" /\ UNCHANGED cp

(* open_file(n, 'a'): creates or extends; modelled for texts only (append of the same text id = id 2) *)
OpenAppend(n) ==
  /\ n \in Names
  /\ IF n = "P" THEN Refuse
     ELSE IF f[n] = None THEN Put(n, Txt(1))
     ELSE IF f[n] = Txt(1) /\ 2 \in Texts THEN Put(n, Txt(2))
     ELSE out' = "ok" /\ UNCHANGED <<f, cp>>       \* other contents: not driven (the harness skips them)

(* DataDir.copy(dst): refuses an existing destination, otherwise a full replica *)
CopyDir ==
  IF cp # None THEN Refuse
  ELSE cp' = f /\ out' = "ok" /\ UNCHANGED f

(* a write through the replica's own DataDir *)
WriteCopy(n, c) ==
  /\ cp # None /\ n \in UserNames /\ c \in Contents \ {None}
  /\ cp' = [cp EXCEPT ![n] = c] /\ out' = "ok" /\ UNCHANGED f

(* observers: sha256checksums (one digest per existing entry; equal contents <=> equal digests), *)
(* read_txt / read_jsondict of every name.  They change nothing.                                  *)
Observe == out' = "ok" /\ UNCHANGED <<f, cp>>

Next == \/ \E n \in Names, c \in Contents \ {None}, ow \in BOOLEAN : Write(n, c, ow)
        \/ \E n \in Names, ks \in SUBSET Keys : Update(n, ks)
        \/ \E S \in SUBSET Names : Delete(S)
        \/ \E n \in Names : OpenAppend(n)
        \/ CopyDir
        \/ \E n \in UserNames, c \in Contents \ {None} : WriteCopy(n, c)
        \/ Observe
Spec == Init /\ [][Next]_vars

TypeOK == /\ f \in [Names -> Contents \cup {Prot}]
          /\ cp = None \/ cp \in [Names -> Contents \cup {Prot}]
          /\ out \in {"ok", "Refused", "Raises"}
ProtectedNeverChanges == f["P"] = Prot /\ (cp # None => cp["P"] = Prot)
RefusalChangesNothing == [][out' # "ok" => (f' = f /\ cp' = cp)]_vars
CopyFaithful == [][(cp = None /\ cp' # None) => (cp' = f /\ f' = f)]_vars
CopyIndependent == [][(cp # None /\ f' # f) => cp' = cp]_vars
SourceIndependent == [][(cp # None /\ cp' # cp) => f' = f]_vars
(* a user file only changes when it is named *)
OnlyNamed == [][\A n \in Names : f'[n] # f[n] =>
                  \/ \E c \in Contents, ow \in BOOLEAN : Write(n, c, ow)
                  \/ \E ks \in SUBSET Keys : Update(n, ks)
                  \/ \E S \in SUBSET Names : n \in S /\ Delete(S)
                  \/ OpenAppend(n)]_vars
(* control: must be violated - overwriting is reachable *)
NeverOverwritten == [][\A n \in UserNames : f[n] # None => f'[n] \in {f[n], None}]_vars
=============================================================================
