------------------------------ MODULE Indexing ------------------------------
(***************************************************************************)
(* C12: the meaning of a[idx] for the modelled NumPy index grammar.        *)
(* An index is a sequence of items                                         *)
(*   [t |-> "int", v |-> i]            integer                             *)
(*   [t |-> "slice", a, b, c]          start:stop:step (NoneV = omitted)   *)
(*   [t |-> "ell"]  [t |-> "new"]      Ellipsis, None                      *)
(*   [t |-> "list", v |-> <<..>>]      one integer list (advanced)         *)
(*   [t |-> "mask", v |-> <<..>>]      one 1-D boolean mask (advanced)     *)
(* with at most one list/mask.  GetItem(shape, idx) is the result shape    *)
(* and, in C order, the flat positions (C order of `shape`) of the         *)
(* selected elements - or Err.  Rules: Ellipsis expansion, per-axis        *)
(* selection through PySlice, integers act as advanced indices when an     *)
(* advanced index is present, the advanced dimension goes where the        *)
(* advanced indices are if they are adjacent and first otherwise.          *)
(***************************************************************************)
EXTENDS Integers, Sequences, FiniteSets, PySlice

Err == [err |-> "IndexError"]
SelErr == <<-7>>     \* "IndexError" as a selection (a sequence, so that TLC can compare it)
Full == [t |-> "slice", a |-> NoneV, b |-> NoneV, c |-> NoneV]

RECURSIVE Cat(_)
Cat(ss) == IF ss = <<>> THEN <<>> ELSE Head(ss) \o Cat(Tail(ss))
RECURSIVE Prod(_)
Prod(s) == IF s = <<>> THEN 1 ELSE Head(s) * Prod(Tail(s))

Consumes(it) == it.t \in {"int", "slice", "list", "mask"}
Count(idx, P(_)) == Cardinality({k \in 1..Len(idx) : P(idx[k])})
NCons(idx) == Count(idx, Consumes)
IsEll(it) == it.t = "ell"
IsAdvItem(it) == it.t \in {"list", "mask"}

(* Ellipsis (or an implicit trailing one) becomes full slices *)
Expand(idx, nd) ==
  LET fill == [k \in 1..(nd - NCons(idx)) |-> Full] IN
  IF Count(idx, IsEll) = 0 THEN idx \o fill
  ELSE Cat([k \in 1..Len(idx) |-> IF idx[k].t = "ell" THEN fill ELSE <<idx[k]>>])

(* axis (1-based) consumed by item k of an expanded index *)
AxisOf(ex, k) == Cardinality({j \in 1..k : Consumes(ex[j])})

TruePos(m) == LET RECURSIVE F(_)
                  F(k) == IF k > Len(m) THEN <<>> ELSE (IF m[k] THEN <<k - 1>> ELSE <<>>) \o F(k + 1)
              IN F(1)

(* 0-based positions selected along an axis of length n, or Err *)
Sel(it, n) ==
  CASE it.t = "int" -> (IF NormIndex(it.v, n) = IndexErr THEN SelErr ELSE <<NormIndex(it.v, n)>>)
    [] it.t = "slice" -> SliceIdx(it.a, it.b, it.c, n)
    [] it.t = "list" -> (IF \E k \in 1..Len(it.v) : NormIndex(it.v[k], n) = IndexErr THEN SelErr
                         ELSE [k \in 1..Len(it.v) |-> NormIndex(it.v[k], n)])
    [] it.t = "mask" -> (IF Len(it.v) # n THEN SelErr ELSE TruePos(it.v))
    [] it.t = "new" -> <<0>>

RECURSIVE Combos(_)
(* all index combinations for dimensions of the given lengths, C order *)
Combos(lens) == IF lens = <<>> THEN <<<<>>>>
                ELSE LET rest == Combos(Tail(lens)) IN
                     Cat([i \in 1..Head(lens) |-> [r \in 1..Len(rest) |-> <<i>> \o rest[r]]])

Strides(shape) == [k \in 1..Len(shape) |-> Prod(SubSeq(shape, k + 1, Len(shape)))]

GetItem(shape, idx) ==
  LET nd == Len(shape) IN
  IF Count(idx, IsEll) > 1 \/ NCons(idx) > nd THEN Err ELSE
  LET ex == Expand(idx, nd)
      n == Len(ex)
      sel == [k \in 1..n |-> IF ex[k].t = "new" THEN <<0>> ELSE Sel(ex[k], shape[AxisOf(ex, k)])]
  IN IF \E k \in 1..n : sel[k] = SelErr THEN Err ELSE
  LET hasAdv == \E k \in 1..n : IsAdvItem(ex[k])
      adv == IF hasAdv THEN {k \in 1..n : ex[k].t \in {"int", "list", "mask"}} ELSE {}
      basic == {k \in 1..n : ex[k].t \in {"slice", "new"}}
      lo == CHOOSE k \in adv : \A j \in adv : k <= j
      hi == CHOOSE k \in adv : \A j \in adv : k >= j
      adjacent == hasAdv /\ (hi - lo + 1 = Cardinality(adv))
      advk == CHOOSE k \in 1..n : IsAdvItem(ex[k])
      advlen == Len(sel[advk])
      SortedBasic(S) == LET RECURSIVE F(_)
                            F(k) == IF k > n THEN <<>> ELSE (IF k \in S THEN <<k>> ELSE <<>>) \o F(k + 1)
                        IN F(1)
      (* slots: 0 stands for the advanced dimension, k > 0 for basic item k *)
      slots == IF ~hasAdv THEN SortedBasic(basic)
               ELSE IF adjacent THEN SortedBasic({k \in basic : k < lo}) \o <<0>> \o SortedBasic({k \in basic : k > hi})
               ELSE <<0>> \o SortedBasic(basic)
      lens == [s \in 1..Len(slots) |-> IF slots[s] = 0 THEN advlen ELSE Len(sel[slots[s]])]
      SlotOf(k) == CHOOSE s \in 1..Len(slots) : slots[s] = k
      str == Strides(shape)
      Coord(c, k) ==      \* source coordinate along the axis of consuming item k for combination c
        IF ex[k].t = "int" THEN sel[k][1]
        ELSE IF ex[k].t = "slice" THEN sel[k][c[SlotOf(k)]]
        ELSE sel[k][c[SlotOf(0)]]
      cons == {k \in 1..n : Consumes(ex[k])}
      RECURSIVE SumPos(_, _)
      SumPos(c, k) == IF k > n THEN 0
                      ELSE (IF k \in cons THEN Coord(c, k) * str[AxisOf(ex, k)] ELSE 0) + SumPos(c, k + 1)
      combos == Combos(lens)
  IN [shape |-> lens, pos |-> [i \in 1..Len(combos) |-> SumPos(combos[i], 1)]]

(* generators used by the harness *)
I(v) == [t |-> "int", v |-> v]
S(a, b, c) == [t |-> "slice", a |-> a, b |-> b, c |-> c]
L(v) == [t |-> "list", v |-> v]
M(v) == [t |-> "mask", v |-> v]
Ell == [t |-> "ell"]
New == [t |-> "new"]
NAdv(ix) == Cardinality({k \in 1..Len(ix) : IsAdvItem(ix[k])})
Tuples(Items, n) == {ix \in [1..n -> Items] : NAdv(ix) <= 1}
Rows(Shapes, Items, Lens) ==
  UNION {UNION {{[shape |-> sh, idx |-> ix, res |-> GetItem(sh, ix)] : ix \in Tuples(Items, n)} : n \in Lens}
         : sh \in Shapes}
=============================================================================
