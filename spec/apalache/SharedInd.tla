----------------------------- MODULE SharedInd -----------------------------
(***************************************************************************)
(* Unbounded check (Apalache) of the safety claim of spec/Shared.tla:      *)
(*   as long as no call went through a stale handle, the length stated by  *)
(*   arraydescription.json is the length of the data file                  *)
(* as an inductive invariant: IndInit => IndInv (length 0) and              *)
(* IndInv /\ Next => IndInv' (length 1), for sequences up to the Gen bound  *)
(* and ANY row values / lengths / indices (no instance constants).          *)
(* Apalache has no recursive operators, so the two PySlice operators are    *)
(* given in closed form here; TLC checks the closed forms against the       *)
(* recursive definitions (spec/apalache/ClosedForms.tla).                   *)
(***************************************************************************)
EXTENDS Integers, Sequences, Apalache

VARIABLES
  \* @type: Seq(Int);
  rows,
  \* @type: Int;
  dlen,
  \* @type: Int -> Int;
  hlen,
  \* @type: Int -> Str;
  mode,
  \* @type: Bool;
  stale

Handles == {1, 2}
IndexErr == -999998
ClampC(x, lo, hi) == IF x < lo THEN lo ELSE IF x > hi THEN hi ELSE x
TruncLenC(i, n) == ClampC(IF i < 0 THEN i + n ELSE i, 0, n)
NormIndexC(i, n) == IF 0 <= i /\ i < n THEN i ELSE IF -n <= i /\ i < 0 THEN i + n ELSE IndexErr

Consistent == dlen = Len(rows)
IsStale(h) == hlen[h] # dlen \/ ~Consistent

(* A step through a handle h with IsStale(h), or from a state with stale = TRUE, ends with stale' = TRUE: *)
(* IndInv' holds whatever the files look like afterwards.  Only the steps through an up-to-date handle    *)
(* from a state that is not stale need their effect spelled out; there the description is consistent,     *)
(* nothing is padded (MapNow = rows) and both bases of Shared.tla (cached, current) are the same number.  *)
\* @type: (Int, Seq(Int)) => Bool;
AppendBody(h, c) ==
  IF mode[h] # "r+" THEN UNCHANGED <<rows, dlen, hlen>>
  ELSE IF hlen[h] = 0 THEN rows' = c /\ dlen' = Len(c) /\ hlen' = [hlen EXCEPT ![h] = Len(c)]
  ELSE rows' = rows \o c /\ dlen' = hlen[h] + Len(c) /\ hlen' = [hlen EXCEPT ![h] = hlen[h] + Len(c)]
\* @type: (Int, Int) => Bool;
TruncBody(h, i) ==
  IF mode[h] # "r+" THEN UNCHANGED <<rows, dlen, hlen>>
  ELSE LET nl == TruncLenC(i, dlen) IN
       IF 0 <= nl /\ nl < hlen[h]
       THEN rows' = SubSeq(rows, 1, nl) /\ dlen' = nl /\ hlen' = [hlen EXCEPT ![h] = nl]
       ELSE UNCHANGED <<rows, dlen, hlen>>
\* @type: (Int, Int, Int) => Bool;
SetBody(h, i, id) ==
  IF mode[h] # "r+" THEN UNCHANGED <<rows, dlen, hlen>>
  ELSE LET p == NormIndexC(i, dlen) IN
       IF p = IndexErr THEN UNCHANGED <<rows, dlen, hlen>>
       ELSE rows' = [rows EXCEPT ![p + 1] = id] /\ UNCHANGED <<dlen, hlen>>

Next ==
  \E h \in Handles :
    /\ UNCHANGED mode
    /\ IF stale \/ IsStale(h)
       THEN stale' = TRUE /\ UNCHANGED <<rows, dlen, hlen>>        \* (any effect: see above)
       ELSE /\ stale' = FALSE
            /\ \/ UNCHANGED <<rows, dlen, hlen>>                  \* a read
               \/ \E x, y, z \in Int : \E c \in {<<x>>, <<x, y>>, <<x, y, z>>} : AppendBody(h, c)
               \/ \E i \in Int : TruncBody(h, i)
               \/ \E i \in Int, id \in Int : SetBody(h, i, id)
               \/ \E m \in {"r", "r+"} : UNCHANGED <<rows, dlen, hlen>>   \* reopen of an up-to-date handle

\* any state with sequences up to the bound, modes over {r, r+}, non-negative lengths
IndInit ==
  /\ rows = Gen(6)
  /\ dlen \in Nat /\ hlen \in [Handles -> Nat] /\ mode \in [Handles -> {"r", "r+"}] /\ stale \in BOOLEAN
  /\ (~stale => dlen = Len(rows))

IndInv == ~stale => dlen = Len(rows)
=============================================================================
