---------------------------- MODULE ClosedForms ----------------------------
(* TLC: the closed forms used by SharedInd.tla equal the operators of PySlice *)
EXTENDS Integers, Sequences, PySlice
ClampC(x, lo, hi) == IF x < lo THEN lo ELSE IF x > hi THEN hi ELSE x
TruncLenC(i, n) == ClampC(IF i < 0 THEN i + n ELSE i, 0, n)
ASSUME \A n \in 0..12 : \A i \in -15..15 : TruncLen(i, n) = TruncLenC(i, n)
VARIABLE v
Init == v = 0
Next == UNCHANGED v
=============================================================================
