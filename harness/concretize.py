"""Concretization of abstract row ids into real values, per configuration.
NumPy is the reference exactly where the properties say so: the bytes of
'this input cast to that dtype'."""
import itertools
import random
import numpy as np

NUMTYPES = ['int8', 'int16', 'int32', 'int64', 'uint8', 'uint16', 'uint32', 'uint64',
            'float16', 'float32', 'float64', 'complex64', 'complex128']
BYTEORDERS = ['little', 'big']
INDEXTYPES = ['int8', 'uint8', 'int16', 'uint16', 'int32', 'uint32', 'int64']
GARBAGE = -9


def dtype_of(numtype, byteorder):
    return np.dtype(numtype).newbyteorder('<' if byteorder == 'little' else '>')


def _nan_payload(dt):
    dt = np.dtype(dt)
    if dt == np.float16:
        return np.array([0x7e55], dtype='uint16').view('float16')[0]
    if dt == np.float32:
        return np.array([0x7fc12345], dtype='uint32').view('float32')[0]
    return np.array([0x7ff8000012345678], dtype='uint64').view('float64')[0]


def specials(numtype):
    """special values of a numtype (native byte order scalars)"""
    dt = np.dtype(numtype)
    if dt.kind in 'iu':
        ii = np.iinfo(dt)
        return [dt.type(ii.min), dt.type(ii.max), dt.type(ii.max - 1), dt.type(1), dt.type(0),
                dt.type(ii.min + 1)]
    if dt.kind == 'f':
        fi = np.finfo(dt)
        return [_nan_payload(dt), dt.type(-0.0), dt.type(np.inf), dt.type(-np.inf),
                fi.smallest_subnormal, fi.max, fi.tiny, dt.type(0.0)]
    ft = np.float32 if dt == np.complex64 else np.float64
    fl = specials(np.dtype(ft).name)
    return [dt.type(complex(fl[0], fl[1])), dt.type(complex(fl[2], fl[3])),
            dt.type(complex(fl[4], fl[5])), dt.type(complex(-0.0, fl[6]))]


def row_values(numtype, tail, rid, valset=0):
    """native-order ndarray of shape `tail` for abstract row id `rid` (>=1).
    Rows of different ids differ in every position; valset > 0 plants special
    values (valset selects which) without destroying distinctness."""
    dt = np.dtype(numtype)
    n = int(np.prod(tail)) if len(tail) else 1
    if dt.kind in 'iu':
        hi = int(np.iinfo(dt).max)
        base = np.array([(rid * 37 + j * 3 + 1) % (min(hi, 120)) + (1 if dt.kind == 'u' else 0) for j in range(n)])
        base = base + (0 if rid % 2 else 1)
        vals = base.astype(dt)
        # make distinctness explicit: position 0 encodes rid
        vals[0] = dt.type(rid)
    elif dt.kind == 'f':
        vals = np.array([rid + 0.5 + j * 0.25 for j in range(n)]).astype(dt)
    else:
        vals = np.array([complex(rid + 0.5 + j * 0.25, -(rid + j) * 0.5) for j in range(n)]).astype(dt)
    if valset:
        sp = specials(numtype)
        # plant specials at positions 1.. (position 0 keeps the id); for
        # one-element rows use a per-id special so that rows stay distinct
        if n == 1:
            usp = []
            seen = set()
            for x in sp:
                kb = np.array(x).tobytes()
                plain = vals.dtype.kind in 'iu' and 1 <= int(x) <= 16
                if kb not in seen and not plain:
                    seen.add(kb)
                    usp.append(x)
            pairs = list(itertools.combinations(range(len(usp)), 2))
            a, b = pairs[(valset - 1) % len(pairs)]
            if rid <= 2:
                vals[0] = usp[a] if rid == 1 else usp[b]
        else:
            for j in range(1, n):
                vals[j] = sp[(valset + j + rid) % len(sp)]
    return vals.reshape(tail)


class Config:
    """One concrete configuration of a run: element type, byte order, trailing
    shape, how appended data are presented, which special values are used."""
    FORMS = ['native', 'swapped', 'list', 'wider', 'forder', 'scalar', 'tuple', 'zerod']

    def __init__(self, numtype='int64', byteorder='little', tail=(), form='native', valset=0,
                 iterform='list', nids=4):
        self.numtype, self.byteorder, self.tail = numtype, byteorder, tuple(tail)
        self.form, self.valset, self.iterform = form, valset, iterform
        self.dtype = dtype_of(numtype, byteorder)
        self.nids = nids
        self._bytes = {}
        for rid in range(1, nids + 1):
            self._bytes[self.stored_bytes(rid)] = rid
        if len(self._bytes) != nids:
            raise AssertionError('row ids not distinguishable in %r' % (self.key(),))

    def key(self):
        return (self.numtype, self.byteorder, self.tail, self.form, self.valset, self.iterform)

    def as_dict(self):
        return dict(numtype=self.numtype, byteorder=self.byteorder, tail=list(self.tail), form=self.form,
                    valset=self.valset, iterform=self.iterform)

    @property
    def rowbytes(self):
        return int(np.prod(self.tail, dtype=np.int64)) * self.dtype.itemsize if self.tail else self.dtype.itemsize

    def row(self, rid):
        return row_values(self.numtype, self.tail, rid, self.valset)

    def stored_bytes(self, rid):
        """bytes a row has on disk: the NumPy reference cast to the array dtype"""
        return np.ascontiguousarray(self.row(rid)).astype(self.dtype).tobytes()

    def rows_array(self, rids, dtype=None):
        """ndarray (native order, array's numtype) holding the rows of rids"""
        shape = (len(rids),) + self.tail
        a = np.empty(shape, dtype=np.dtype(self.numtype))
        for i, r in enumerate(rids):
            a[i] = self.row(r)
        return a

    def initial(self, rids):
        """the array handed to asarray to materialise a state: in the stored dtype"""
        return self.rows_array(rids).astype(self.dtype)

    def chunk(self, rids):
        """a chunk to append, presented in this config's input form"""
        a = self.rows_array(rids)
        f = self.form
        if f == 'native':
            return a
        if f == 'swapped':
            return a.astype(a.dtype.newbyteorder('S'))
        if f == 'list':
            return a.tolist()
        if f == 'tuple':
            return tuple(a.tolist())
        if f == 'wider':
            k = a.dtype.kind
            w = {'i': 'int64', 'u': 'uint64', 'f': 'float64', 'c': 'complex128'}[k]
            return a.astype(w)
        if f == 'forder':
            if a.ndim >= 2:
                return np.asfortranarray(a)
            return a[::-1][::-1]
        if f == 'scalar':
            if a.ndim == 1 and len(rids) == 1:
                return a[0].item() if a.dtype.kind != 'c' else complex(a[0])
            return a
        if f == 'zerod':                  # a 0-d ndarray: one element, like a scalar
            if a.ndim == 1 and len(rids) == 1:
                return np.array(a[0])
            return a
        raise ValueError(f)

    def expected_chunk_bytes(self, rids):
        """reference: np.asarray(chunk) cast to the array's dtype, row by row"""
        c = self.chunk(rids)
        if isinstance(c, np.ndarray):
            ref = c.astype(self.dtype)
        else:
            ref = np.array(c, dtype=self.dtype, ndmin=1)
        ref = np.ascontiguousarray(ref).reshape((len(rids),) + self.tail)
        return [ref[i:i + 1].tobytes() for i in range(len(rids))]

    def iterable(self, chunks):
        if self.iterform == 'gen':
            return (c for c in chunks)
        if self.iterform == 'tuple':
            return tuple(chunks)
        return list(chunks)

    def decode_rows(self, rawrows):
        return tuple(self._bytes.get(bytes(r), GARBAGE) for r in rawrows)

    def register(self, rowbytes_list, rids):
        """forms may change the stored bytes of a row (reference cast); make
        those byte strings decode to the same id"""
        for b, r in zip(rowbytes_list, rids):
            old = self._bytes.get(b)
            if old is not None and old != r:
                raise AssertionError('ambiguous concretization')
            self._bytes[b] = r


TAILS = [(), (2,), (3, 2), (1,), (2, 1, 2)]


def config_space(thorough=False):
    forms = Config.FORMS
    out = []
    for nt in NUMTYPES:
        for bo in BYTEORDERS:
            for tail in (TAILS if thorough else TAILS[:3]):
                for form in forms:
                    if form in ('scalar', 'zerod') and tail != ():
                        continue
                    out.append((nt, bo, tail, form))
    return out


def pick_configs(n, seed, thorough=False):
    """n configurations, deterministic in seed, covering every (numtype,
    byteorder) pair as early as possible and rotating tails/forms/valsets."""
    rnd = random.Random(seed)
    pairs = [(nt, bo) for nt in NUMTYPES for bo in BYTEORDERS]
    rnd.shuffle(pairs)
    tails = TAILS if thorough else TAILS[:4]
    # every valid (trailing shape, input form) combination, shuffled; the i-th configuration takes the
    # i-th type/byte-order pair and the i-th combination, with a shift per round so that pairs and
    # combinations meet in different ways
    combos = [(t, f) for t in tails for f in Config.FORMS if f not in ('scalar', 'zerod') or t == ()]
    rnd.shuffle(combos)
    out = []
    i = 0
    while len(out) < n:
        nt, bo = pairs[i % len(pairs)]
        tail, form = combos[(i + 3 * (i // len(pairs))) % len(combos)]
        valset = (i // 3) % 5
        iterform = ['list', 'gen', 'tuple'][i % 3]
        out.append(Config(nt, bo, tail, form, valset, iterform))
        i += 1
    return out
