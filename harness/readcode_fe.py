"""Strict front ends for the read-code snippets Darr generates: each snippet is
lowered to a *read plan* (DESIGN Appendix C) or rejected as not well-formed.
Only the call shapes that can read a flat binary file are accepted; anything
else raises NotWellFormed with the offending line.  The meaning of the plan
(type tokens, endianness tokens, axis order, range semantics) lives in
spec/ReadCode.tla and spec/RaggedReadCode.tla, not here."""
import re


class NotWellFormed(Exception):
    pass


def _lines(code):
    return [ln for ln in code.split('\n')]


def split_args(s):
    """split a call's argument text at top-level commas (quotes, brackets respected)"""
    out, cur, depth, q = [], '', 0, None
    for ch in s:
        if q:
            cur += ch
            if ch == q:
                q = None
            continue
        if ch in '"\'':
            q = ch
            cur += ch
        elif ch in '([{':
            depth += 1
            cur += ch
        elif ch in ')]}':
            depth -= 1
            cur += ch
        elif ch == ',' and depth == 0:
            out.append(cur.strip())
            cur = ''
        else:
            cur += ch
    if q or depth:
        raise NotWellFormed('unbalanced quotes or brackets in %r' % s)
    if cur.strip() or out:
        out.append(cur.strip())
    return out


def _ints(txt, what):
    parts = [p.strip() for p in txt.split(',')]
    if parts and parts[-1] == '':
        parts = parts[:-1]
    try:
        return [int(p) for p in parts]
    except ValueError:
        raise NotWellFormed('bad dimension list %r in %s' % (txt, what))


def _match(rx, line, what):
    m = re.fullmatch(rx, line)
    if not m:
        raise NotWellFormed('%s: cannot parse %r' % (what, line))
    return m


def _plan(lang, var, **kw):
    p = {'lang': lang, 'var': var, 'path': None, 'typetok': '', 'endtok': '', 'nread': -1, 'readdims': None,
         'reshape': None, 'post': 'none', 'skip': 0, 'offsets': [0], 'opens': 1, 'closes': 1}
    p.update(kw)
    return p


# ----------------------------------------------------------------------------- R
def parse_r(code, var='a'):
    ls = [x for x in _lines(code) if x.strip() and not x.startswith('#')]
    if len(ls) not in (3, 4):
        raise NotWellFormed('R: unexpected number of statements: %d' % len(ls))
    m = _match(r'fileid <- file\("([^"]*)", "rb"\)', ls[0], 'R file()')
    p = _plan('R', var, path=m.group(1))
    m = _match(r'%s <- readBin\((.*)\)' % re.escape(var), ls[1], 'R readBin')
    args = dict()
    for a in split_args(m.group(1)):
        k, _, v = a.partition('=')
        args[k.strip()] = v.strip()
    if set(args) != {'con', 'what', 'n', 'size', 'signed', 'endian'} or args['con'] != 'fileid':
        raise NotWellFormed('R readBin arguments: %r' % args)
    if args['signed'] not in ('TRUE', 'FALSE') or not re.fullmatch(r'"\w+"', args['endian']):
        raise NotWellFormed('R readBin signed/endian: %r' % args)
    p['typetok'] = '%s:%s:%s' % (args['what'], args['size'], args['signed'])
    p['endtok'] = args['endian'].strip('"')
    p['nread'] = int(args['n'])
    i = 2
    if len(ls) == 4:
        m = _match(r'%s <- array\(data=%s, dim=c\(([^)]*)\), dimnames=NULL\)' % (re.escape(var), re.escape(var)),
                   ls[2], 'R array()')
        p['reshape'] = _ints(m.group(1), 'R dim')
        i = 3
    _match(r'close\(fileid\)', ls[i], 'R close')
    return p


# ----------------------------------------------------------------------------- Matlab
def _matlab_fread(expr, what):
    m = _match(r'fread\((.*)\)', expr, what)
    a = split_args(m.group(1))
    if len(a) not in (4, 5) or a[0] != 'fileid':
        raise NotWellFormed('%s: fread arguments %r' % (what, a))
    size = a[1]
    if re.fullmatch(r'\d+', size):
        nread, dims = int(size), None
    else:
        mm = re.fullmatch(r'\[([\d, ]+)\]', size)
        if not mm:
            raise NotWellFormed('%s: fread size %r' % (what, size))
        dims = _ints(mm.group(1), what)
        if len(dims) != 2:
            raise NotWellFormed('%s: fread accepts [m, n] only, got %r' % (what, dims))
        nread = dims[0] * dims[1]
    mm = re.fullmatch(r"'\*(\w+)'", a[2])
    if not mm:
        raise NotWellFormed('%s: fread precision %r' % (what, a[2]))
    skip = 0
    if len(a) == 5:
        if not re.fullmatch(r'\d+', a[3]):
            raise NotWellFormed('%s: fread skip must be a number, got %r' % (what, a[3]))
        skip = int(a[3])
    fmt = a[-1]
    mf = re.fullmatch(r"'([\w-]+)'", fmt)
    if not mf:
        raise NotWellFormed('%s: fread machine format %r' % (what, fmt))
    return nread, dims, mm.group(1), skip, mf.group(1)


def _matlab_read_stmt(line, var, what):
    m = re.fullmatch(r'%s = reshape\((fread\(.*\)), \[([\d, ]+)\]\);' % re.escape(var), line)
    if m:
        nread, dims, tt, skip, et = _matlab_fread(m.group(1), what)
        if dims is not None:
            raise NotWellFormed('%s: reshape of a 2-D fread' % what)
        return nread, None, _ints(m.group(2), what), tt, skip, et
    m = _match(r'%s = (fread\(.*\));' % re.escape(var), line, what)
    nread, dims, tt, skip, et = _matlab_fread(m.group(1), what)
    return nread, dims, None, tt, skip, et


def parse_matlab(code, var='a'):
    ls = [x for x in _lines(code) if x.strip() and not x.startswith('%')]
    m = _match(r"fileid = fopen\('([^']*)'\);", ls[0], 'Matlab fopen')
    p = _plan('matlab', var, path=m.group(1))
    if len(ls) >= 2 and ls[1].startswith('re = '):
        # complex: real and imaginary parts read with a skip
        if len(ls) != 6:
            raise NotWellFormed('Matlab complex: %d statements' % len(ls))
        r1 = _matlab_read_stmt(ls[1], 're', 'Matlab re')
        ms = _match(r"fseek\(fileid, (\d+), 'bof'\); % to read imaginary numbers", ls[2], 'Matlab fseek')
        r2 = _matlab_read_stmt(ls[3], 'im', 'Matlab im')
        _match(r'fclose\(fileid\);', ls[4], 'Matlab fclose')
        _match(r'%s = complex\(re, im\);' % re.escape(var), ls[5], 'Matlab complex()')
        if r1 != r2:
            raise NotWellFormed('Matlab complex: re and im are read differently')
        p.update(nread=r1[0], readdims=r1[1], reshape=r1[2], typetok=r1[3], skip=r1[4], endtok=r1[5],
                 post='complex_parts', offsets=[0, int(ms.group(1))])
        return p
    r = _matlab_read_stmt(ls[1], var, 'Matlab fread')
    p.update(nread=r[0], readdims=r[1], reshape=r[2], typetok=r[3], skip=r[4], endtok=r[5])
    i = 2
    if len(ls) == 4:
        _match(r'%s = half\.typecast\(%s\); %% may not work in Octave yet' % (re.escape(var), re.escape(var)), ls[2],
               'Matlab half.typecast')
        p['post'] = 'half'
        i = 3
    if len(ls) != i + 1:
        raise NotWellFormed('Matlab: %d statements' % len(ls))
    _match(r'fclose\(fileid\);', ls[i], 'Matlab fclose')
    return p


# ----------------------------------------------------------------------------- Scilab
def parse_scilab(code, var='a'):
    ls = [x for x in _lines(code) if x.strip() and not x.startswith('/*')]
    m = _match(r'fileid = mopen\("([^"]*)", "rb"\);', ls[0], 'Scilab mopen')
    p = _plan('scilab', var, path=m.group(1))
    m = _match(r'%s = (mget|mgeti)\((\d+), "(\w+)", fileid\);' % re.escape(var), ls[1], 'Scilab mget')
    p['nread'] = int(m.group(2))
    tok = m.group(3)
    if len(tok) < 2 or tok[-1] not in 'lb':
        raise NotWellFormed('Scilab type %r has no endianness suffix' % tok)
    p['typetok'] = m.group(1) + ':' + tok[:-1]
    p['endtok'] = tok[-1]
    i = 2
    mm = re.fullmatch(r'%s = matrix\(%s, \[([\d, ]+)\]\);' % (re.escape(var), re.escape(var)), ls[i])
    if mm:
        p['reshape'] = _ints(mm.group(1), 'Scilab matrix')
        i += 1
    _match(r'mclose\(fileid\);', ls[i], 'Scilab mclose')
    i += 1
    if i < len(ls):
        v = re.escape(var)
        mm = re.fullmatch(r'%s = complex\(matrix\(%s\(1((?:,:)+)\), ?\[([\d, ]+)\]\),matrix\(%s\(2((?:,:)+)\), ?\[([\d, ]+)\]\)\);'
                          % (v, v, v), ls[i])
        if mm:
            if mm.group(1) != mm.group(3) or mm.group(2) != mm.group(4):
                raise NotWellFormed('Scilab complex: real and imaginary part are treated differently')
            p['slicefix'] = 'matrix'
            p['finaldims'] = _ints(mm.group(2), 'Scilab matrix of a part')
        else:
            mm = _match(r'%s = complex\(squeeze\(%s\(1((?:,:)+)\)\),squeeze\(%s\(2((?:,:)+)\)\)\);' % (v, v, v),
                        ls[i], 'Scilab complex()')
            if mm.group(1) != mm.group(2):
                raise NotWellFormed('Scilab complex: different index expressions')
            p['slicefix'] = 'squeeze'
        p['post'] = 'complex_firstaxis'
        p['ncolons'] = mm.group(1).count(':')
        i += 1
    if i != len(ls):
        raise NotWellFormed('Scilab: trailing statements %r' % ls[i:])
    return p


# ----------------------------------------------------------------------------- Julia
def parse_julia(code, var='a', version=1):
    ls = [x for x in _lines(code) if x.strip() and not x.startswith('#')]
    if len(ls) != 3:
        raise NotWellFormed('Julia: %d statements' % len(ls))
    m = _match(r'fileid = open\("([^"]*)","r"\);', ls[0], 'Julia open')
    p = _plan('julia', var, path=m.group(1))
    if version == 0:
        m = _match(r'%s = map\((\w+), read\(fileid, ([\w{}]+), \(([\d, ]+)\)\)\);' % re.escape(var), ls[1], 'Julia read')
    else:
        m = _match(r'%s = map\((\w+), read!\(fileid, Array\{([\w{}]+)\}\(undef, ([\d, ]+)\)\)\);' % re.escape(var),
                   ls[1], 'Julia read!')
    p['endtok'] = m.group(1)
    p['typetok'] = m.group(2)
    p['readdims'] = _ints(m.group(3), 'Julia dims')
    p['nread'] = 1
    for d in p['readdims']:
        p['nread'] *= d
    _match(r'close\(fileid\);', ls[2], 'Julia close')
    return p


# ----------------------------------------------------------------------------- IDL
def parse_idl(code, var='a'):
    ls = [x for x in _lines(code) if x.strip() and not x.startswith(';')]
    if len(ls) != 1:
        raise NotWellFormed('IDL: %d statements' % len(ls))
    m = _match(r'%s = read_binary\("([^"]*)", data_type=(\d+), data_dims=\[([\d, ]+)\], endian="(\w+)"\)'
               % re.escape(var), ls[0], 'IDL read_binary')
    p = _plan('idl', var, path=m.group(1), typetok=m.group(2), endtok=m.group(4), opens=0, closes=0)
    p['readdims'] = _ints(m.group(3), 'IDL data_dims')
    p['nread'] = 1
    for d in p['readdims']:
        p['nread'] *= d
    return p


# ----------------------------------------------------------------------------- Mathematica
def parse_mathematica(code, var='a'):
    ls = [x for x in _lines(code) if x.strip() and not x.startswith('(*')]
    if len(ls) != 2:
        raise NotWellFormed('Mathematica: %d statements' % len(ls))
    m = _match(r'%s = BinaryReadList\["([^"]*)", "(\w+)", ByteOrdering -> ([+-]1)\];' % re.escape(var), ls[0],
               'Mathematica BinaryReadList')
    p = _plan('mathematica', var, path=m.group(1), typetok=m.group(2), endtok=m.group(3), opens=0, closes=0)
    m = _match(r'%s = ArrayReshape\[%s, \{([\d, ]+)\}\];' % (re.escape(var), re.escape(var)), ls[1],
               'Mathematica ArrayReshape')
    p['reshape'] = _ints(m.group(1), 'Mathematica dims')
    p['nread'] = -2         # BinaryReadList reads to the end of the file
    return p


# ----------------------------------------------------------------------------- Maple
def parse_maple(code, var='a'):
    ls = [x for x in _lines(code) if x.strip() and not x.startswith('#')]
    if len(ls) not in (2, 3):
        raise NotWellFormed('Maple: %d statements' % len(ls))
    m = _match(r'%s := FileTools\[Binary\]\[Read\]\("([^"]*)", (\w+\[\d+\]), byteorder=(\w+), output=Array\);'
               % re.escape(var), ls[0], 'Maple Read')
    p = _plan('maple', var, path=m.group(1), typetok=m.group(2), endtok=m.group(3), opens=0)
    m2 = _match(r'FileTools\[Binary\]\[Close\]\("([^"]*)"\);', ls[1], 'Maple Close')
    if m2.group(1) != p['path']:
        raise NotWellFormed('Maple: closes another file than it read')
    if len(ls) == 3:
        m = _match(r'%s := ArrayTools\[Reshape\]\(%s, \[([\d, ]+)\]\);' % (re.escape(var), re.escape(var)), ls[2],
                   'Maple Reshape')
        p['reshape'] = _ints(m.group(1), 'Maple dims')
    p['nread'] = -2
    return p


PARSERS = {
    'R': parse_r, 'matlab': parse_matlab, 'scilab': parse_scilab,
    'julia_ver0': lambda c, var='a': parse_julia(c, var, 0), 'julia_ver1': lambda c, var='a': parse_julia(c, var, 1),
    'julia': lambda c, var='a': parse_julia(c, var, 1),
    'idl': parse_idl, 'mathematica': parse_mathematica, 'maple': parse_maple,
}
FOREIGN = ['R', 'matlab', 'scilab', 'julia_ver0', 'julia_ver1', 'idl', 'mathematica', 'maple']


def plan_to_tla(p, pid):
    def seq(x):
        return '<<' + ', '.join(str(v) for v in x) + '>>'
    return ('[id |-> %d, lang |-> "%s", typetok |-> "%s", endtok |-> "%s", nread |-> %d, readdims |-> %s, '
            'reshape |-> %s, post |-> "%s", skip |-> %d, offsets |-> %s, ncolons |-> %d, slicefix |-> "%s", '
            'finaldims |-> %s]'
            % (pid, p['lang'], p['typetok'].replace('"', ''), p['endtok'], p['nread'],
               seq(p['readdims']) if p['readdims'] is not None else '<<-1>>',
               seq(p['reshape']) if p['reshape'] is not None else '<<-1>>', p['post'], p['skip'], seq(p['offsets']),
               p.get('ncolons', 0), p.get('slicefix', 'none'), seq(p['finaldims']) if p.get('finaldims') else '<<-1>>'))


# =============================================================================
# Ragged arrays (C07): index-array snippet + values snippet + accessor + example
# =============================================================================
ORD = {'first': 0, 'second': 1, 'third': 2}


def _acc(**kw):
    a = {'origin': 0, 'kaxis': 'second', 'startadd': 0, 'endadd': 0, 'endincl': True, 'nplace': 0, 'side': 'before',
         'guard': 'none', 'emptydims': None}
    a.update(kw)
    return a


def _example(comment_rx, stmt_rx, lines, lang, binds):
    """the example: a comment naming ordinal and k, then the statement binding sa"""
    text = '\n'.join(lines)
    m = re.search(comment_rx, text)
    if not m:
        raise NotWellFormed('%s: example comment not found in %r' % (lang, text[-200:]))
    ordinal, kc = m.group(1), int(m.group(2))
    m2 = re.search(stmt_rx, text)
    if not m2:
        raise NotWellFormed('%s: example statement not found in %r' % (lang, text[-200:]))
    return {'ordinal': ordinal, 'kcomment': kc, 'bind': m2.group(1), 'k': int(m2.group(2)),
            'bind_ok': m2.group(1) in binds}


def _split_after(lines, rx, count):
    """cut `lines` after the count-th line matching rx"""
    seen = 0
    for i, ln in enumerate(lines):
        if re.fullmatch(rx, ln):
            seen += 1
            if seen == count:
                return lines[:i + 1], lines[i + 1:]
    raise NotWellFormed('marker %r not found %d times' % (rx, count))


def parse_ragged(lang, code):
    """-> {'idx': plan, 'val': plan, 'acc': accessor, 'ex': example}"""
    raw = _lines(code)
    if lang == 'R':
        ls = [x for x in raw if x.strip() and not x.startswith('#')]
        a, rest = _split_after(ls, r'close\(fileid\)', 1)
        b, rest = _split_after(rest, r'close\(fileid\)', 1)
        idx, val = parse_r('\n'.join(a), 'i'), parse_r('\n'.join(b), 'v')
        body = '\n'.join(rest)
        m = re.search(r'getsubarray <- function\(k\)\{\n    starti <- i\[1,k\] \+ 1  # R starts counting from 1\n'
                      r'    endi <- i\[2,k\]        # R has inclusive end index\n'
                      r'    if \(starti (>|>=|==) endi( \+ 1)?\) \{(?:  # subarray is empty)?\n'
                      r'        return \((c\(\)|array\(numeric\(\),c\(([\d,]+)\)\))\)(?: # empty array)?\n'
                      r'    \} else \{\n        return \(v\[((?:,)*)starti:endi\]\)\n    \}\n\}\n', body + '\n')
        if not m:
            raise NotWellFormed('R: accessor not recognised: %r' % body[:300])
        ed = None if m.group(3) == 'c()' else _ints(m.group(4), 'R empty dims')
        gop = m.group(1) + (m.group(2) or '')
        guard = {'>': 'empty_if_start_gt_end', '== + 1': 'empty_if_start_gt_end', '>=': 'empty_if_start_ge_end'}.get(gop)
        if guard is None:
            raise NotWellFormed('R: unknown emptiness guard %r' % gop)
        acc = _acc(origin=1, kaxis='second', startadd=1, endadd=0, endincl=True, nplace=len(m.group(5)), side='before',
                   guard=guard, emptydims=ed)
        ex = _example(r'# example to read (\w+) \(k=(\d+)\) subarray:', r'\nsa (=|<-) getsubarray\((\d+)\)\s*$', raw, 'R',
                      ('=', '<-'))
        return {'idx': idx, 'val': val, 'acc': acc, 'ex': ex}
    if lang == 'matlab':
        ls = [x for x in raw if x.strip() and not x.startswith('%')]
        a, rest = _split_after(ls, r'fclose\(fileid\);', 1)
        idx = parse_matlab('\n'.join(a), 'i')
        # the values snippet may end with 'v = complex(re, im);' after fclose
        b, rest = _split_after(rest, r'fclose\(fileid\);', 1)
        if rest and rest[0].startswith('v = complex('):
            b, rest = b + [rest[0]], rest[1:]
        val = parse_matlab('\n'.join(b), 'v')
        if len(rest) != 2:
            raise NotWellFormed('Matlab ragged: trailing %r' % rest)
        m = re.fullmatch(r'getsubarray = @\(k\) v\(((?::,)*)double\(i\(1,k\)\)\+1:double\(i\(2,k\)\)\);', rest[0])
        arith = 'wide'
        if not m:       # i(1,k)+1 is computed in the integer class fread('*type') gave the index array
            m = _match(r'getsubarray = @\(k\) v\(((?::,)*)i\(1,k\)\+1:i\(2,k\)\);', rest[0], 'Matlab accessor')
            arith = 'class'
        acc = _acc(origin=1, kaxis='second', startadd=1, endincl=True, nplace=m.group(1).count(':'), arith=arith)
        ex = _example(r'% example to read (\w+) \(k=(\d+)\) subarray:', r'\nsa (=) getsubarray\((\d+)\);\s*$', raw, 'Matlab', ('=',))
        return {'idx': idx, 'val': val, 'acc': acc, 'ex': ex}
    if lang == 'scilab':
        ls = [x for x in raw if x.strip() and not x.startswith('/*')]
        a, rest = _split_after(ls, r'mclose\(fileid\);', 1)
        idx = parse_scilab('\n'.join(a), 'i')
        b, rest = _split_after(rest, r'mclose\(fileid\);', 1)
        if rest and rest[0].startswith('v = complex('):
            b, rest = b + [rest[0]], rest[1:]
        val = parse_scilab('\n'.join(b), 'v')
        if len(rest) != 2:
            raise NotWellFormed('Scilab ragged: trailing %r' % rest)
        m = re.fullmatch(r'deff\("sa = getsubarray\(k\)", "sa = v\(((?::,)*)double\(i\(1,k\)\)\+1:double\(i\(2,k\)\)\)"\)', rest[0])
        arith = 'wide'
        if not m:       # mgeti returns integers of the file's class
            m = _match(r'deff\("sa = getsubarray\(k\)", "sa = v\(((?::,)*)i\(1,k\)\+1:i\(2,k\)\)"\)', rest[0], 'Scilab accessor')
            arith = 'class'
        acc = _acc(origin=1, kaxis='second', startadd=1, endincl=True, nplace=m.group(1).count(':'), arith=arith)
        ex = _example(r'/\* example to read (\w+) \(k=(\d+)\) subarray: \*/', r'\nsa (=) getsubarray\((\d+)\);\s*$', raw,
                      'Scilab', ('=',))
        return {'idx': idx, 'val': val, 'acc': acc, 'ex': ex}
    if lang == 'julia':
        ls = [x for x in raw if x.strip() and not x.startswith('#')]
        a, rest = _split_after(ls, r'close\(fileid\);', 1)
        b, rest = _split_after(rest, r'close\(fileid\);', 1)
        idx, val = parse_julia('\n'.join(a), 'i', 1), parse_julia('\n'.join(b), 'v', 1)
        body = '\n'.join(rest)
        m = re.fullmatch(r'function getsubarray\(k\)\n    starti = i\[1,k\]\+1  # Julia starts counting from 1\n'
                         r'    endi = i\[2,k\]  # Julia has inclusive end index\n    v\[((?::,)*)starti:endi\]\nend\n'
                         r'sa = getsubarray\(\d+\)', body)
        if not m:
            raise NotWellFormed('Julia: accessor not recognised: %r' % body[:300])
        acc = _acc(origin=1, kaxis='second', startadd=1, endincl=True, nplace=m.group(1).count(':'))
        ex = _example(r'# example to read (\w+) \(k=(\d+)\) subarray:', r'\nsa (=) getsubarray\((\d+)\)\s*$', raw, 'Julia', ('=',))
        return {'idx': idx, 'val': val, 'acc': acc, 'ex': ex}
    if lang == 'idl':
        ls = [x for x in raw if x.strip() and not x.startswith(';')]
        if len(ls) != 4:
            raise NotWellFormed('IDL ragged: %d statements' % len(ls))
        idx, val = parse_idl(ls[0], 'i'), parse_idl(ls[1], 'v')
        mk = _match(r'k = (\d+) ?', ls[2], 'IDL k')
        m = _match(r'IF i\[0,k\] EQ i\[1,k\] THEN sa=\[\] ELSE sa=v\[((?:\*,)*)i\[0,k\]:i\[1,k\]-1\]', ls[3], 'IDL accessor')
        acc = _acc(origin=0, kaxis='second', startadd=0, endadd=-1, endincl=True, nplace=m.group(1).count('*'),
                   guard='empty_if_equal')
        text = '\n'.join(raw)
        mc = re.search(r'; example to get the (\w+) \(k=(\d+)\) subarray from the values array,', text)
        if not mc:
            raise NotWellFormed('IDL: example comment not found')
        ex = {'ordinal': mc.group(1), 'kcomment': int(mc.group(2)), 'bind': '=', 'k': int(mk.group(1)), 'bind_ok': True}
        return {'idx': idx, 'val': val, 'acc': acc, 'ex': ex}
    if lang == 'mathematica':
        # comments must be complete (* ... *) groups followed by nothing on their line
        text = '\n'.join(raw)
        stripped = re.sub(r'\(\*.*?\*\)', '', text, flags=re.S)
        for ln in stripped.split('\n'):
            if ln.strip() in (':',) or re.fullmatch(r'\s*:\s*', ln):
                raise NotWellFormed('Mathematica: stray %r after a comment' % ln)
        ls = [x for x in stripped.split('\n') if x.strip()]
        if len(ls) < 10:
            raise NotWellFormed('Mathematica ragged: %d statements' % len(ls))
        idx, val = parse_mathematica('\n'.join(ls[0:2]), 'i'), parse_mathematica('\n'.join(ls[2:4]), 'v')
        body = '\n'.join(ls[4:])
        m = re.fullmatch(r'getsubarray\[k_\?IntegerQ\] := \n    Module\[\{l\},\n        l = k;\n'
                         r'        starti = i\[\[l,1\]\] \+ 1;\n        endi = i\[\[l,2\]\];\n'
                         r'        v\[\[starti;;endi\]\]\]\nsa = getsubarray\[\d+\]', body)
        if not m:
            raise NotWellFormed('Mathematica: accessor not recognised: %r' % body[:300])
        acc = _acc(origin=1, kaxis='first', startadd=1, endincl=True, nplace=0, side='none')
        ex = _example(r'\(\* example to read (\w+) \(k=(\d+)\) subarray: \*\)', r'\nsa (=|:=) getsubarray\[(\d+)\]\s*$', raw,
                      'Mathematica', ('=', ':='))
        return {'idx': idx, 'val': val, 'acc': acc, 'ex': ex}
    if lang == 'maple':
        ls = [x for x in raw if x.strip() and not x.startswith('#')]
        a, rest = ls[0:3], ls[3:]
        idx = parse_maple('\n'.join(a), 'i')
        nv = 3 if len(rest) > 2 and rest[2].startswith('v := ArrayTools') else 2
        val = parse_maple('\n'.join(rest[:nv]), 'v')
        body = '\n'.join(rest[nv:])
        m = re.fullmatch(r'getsubarray := proc \(k::integer\);\n    v\(((?:\.\.,)*) i\(1,k\) \+ 1 \.\. i\(2,k\)\);\nend proc;\n'
                         r'sa :?= getsubarray\(\d+\);', body)
        if not m:
            raise NotWellFormed('Maple: accessor not recognised: %r' % body[:300])
        acc = _acc(origin=1, kaxis='second', startadd=1, endincl=True, nplace=m.group(1).count('..'))
        ex = _example(r'# example to read (\w+) \(k=(\d+)\) subarray:', r'\nsa (=|:=) getsubarray\((\d+)\);\s*$', raw, 'Maple',
                      (':=',))
        return {'idx': idx, 'val': val, 'acc': acc, 'ex': ex}
    raise NotWellFormed('no ragged front end for %s' % lang)


def ragged_to_tla(rp, pid):
    a = rp['acc']
    e = rp['ex']
    return ('[id |-> %d, lang |-> "%s", idx |-> %s, val |-> %s, '
            'acc |-> [origin |-> %d, kaxis |-> "%s", startadd |-> %d, endadd |-> %d, endincl |-> %s, nplace |-> %d, '
            'side |-> "%s", guard |-> "%s", arith |-> "%s", emptydims |-> %s], '
            'ex |-> [ordinal |-> "%s", kcomment |-> %d, k |-> %d, bindok |-> %s]]'
            % (pid, rp['idx']['lang'], plan_to_tla(rp['idx'], pid), plan_to_tla(rp['val'], pid), a['origin'], a['kaxis'],
               a['startadd'], a['endadd'], 'TRUE' if a['endincl'] else 'FALSE', a['nplace'], a['side'], a['guard'], a.get('arith', 'wide'),
               ('<<' + ', '.join(map(str, a['emptydims'])) + '>>') if a['emptydims'] is not None else '<<-1>>',
               e['ordinal'], e['kcomment'], e['k'], 'TRUE' if e['bind_ok'] else 'FALSE'))
