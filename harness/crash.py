"""Crash points: every distinct on-disk state between two executed source
lines inside darr/ during a call, and synthesized torn variants of every file
write between consecutive states."""
import hashlib
import os
import shutil
import sys
import tempfile


def fingerprint(root):
    out = []
    for dp, dn, fn in os.walk(root):
        dn.sort()
        for f in sorted(fn):
            p = os.path.join(dp, f)
            try:
                with open(p, 'rb') as fh:
                    h = hashlib.md5(fh.read()).hexdigest()
            except OSError:
                h = None
            out.append((os.path.relpath(p, root), h))
        for d in dn:
            out.append((os.path.relpath(os.path.join(dp, d), root) + '/', 'd'))
    return tuple(out)


class Snapshots:
    """run fn() under sys.settrace; copy `root` aside whenever its content
    changed between two executed lines of code under `srcprefix`"""

    def __init__(self, root, store, srcprefix=None):
        srcprefix = srcprefix or (os.path.abspath(os.environ.get('VERIF_REPO', '/repo')) + '/darr/')
        self.root, self.store, self.srcprefix = root, store, srcprefix
        self.snaps = []      # list of (where, dir copy path)
        self.last = None
        self.events = 0

    def _take(self, where):
        fp = fingerprint(self.root)
        if fp != self.last:
            self.last = fp
            d = os.path.join(self.store, 'snap%03d' % len(self.snaps))
            if os.path.exists(self.root):
                # an armed RLIMIT_FSIZE (write-fault scenarios) must not hit our own copy
                import resource
                lim = resource.getrlimit(resource.RLIMIT_FSIZE)
                resource.setrlimit(resource.RLIMIT_FSIZE, (lim[1], lim[1]))
                try:
                    shutil.copytree(self.root, d, symlinks=True)
                finally:
                    resource.setrlimit(resource.RLIMIT_FSIZE, lim)
            else:
                os.makedirs(d + '.gone')
                d = d + '.gone'
            self.snaps.append((where, d))

    def _global(self, frame, event, arg):
        if frame.f_code.co_filename.startswith(self.srcprefix) and '/tests/' not in frame.f_code.co_filename:
            return self._local
        return None

    def _local(self, frame, event, arg):
        if event in ('line', 'return'):
            self.events += 1
            self._take('%s:%d' % (os.path.basename(frame.f_code.co_filename), frame.f_lineno))
        return self._local

    def run(self, fn):
        self._take('start')
        exc = None
        old = sys.gettrace()
        sys.settrace(self._global)
        try:
            fn()
        except Exception as e:   # noqa
            exc = e
        finally:
            sys.settrace(old)
        self._take('end')
        return exc


def changed_files(a, b):
    """relative names of regular files whose content differs between dirs a, b"""
    fa, fb = dict(fingerprint(a)), dict(fingerprint(b))
    return [k for k in sorted(set(fa) | set(fb)) if fa.get(k) != fb.get(k) and not k.endswith('/')]


def torn_contents(old, new):
    """plausible contents of a file caught in the middle of the write that
    turns `old` (bytes or None) into `new` (bytes or None)"""
    out = []
    if new is None:           # unlink is atomic
        return out
    old = old or b''
    if new.startswith(old) and len(new) > len(old):        # append
        app = new[len(old):]
        for n in sorted({1, len(app) // 2, len(app) - 1, max(1, len(app) // 3)}):
            if 0 < n < len(app):
                out.append(old + app[:n])
    elif old.startswith(new) and len(new) < len(old):       # truncate: atomic
        pass
    else:                                                   # rewrite in place: open('w') then write
        out.append(b'')
        for n in sorted({1, len(new) // 2, len(new) - 1}):
            if 0 < n < len(new):
                out.append(new[:n])
    return out


def torn_variants(prev, nxt, store, tag):
    """directories = nxt with one changed file replaced by a torn content"""
    out = []
    for rel in changed_files(prev, nxt):
        po, pn = os.path.join(prev, rel), os.path.join(nxt, rel)
        old = open(po, 'rb').read() if os.path.isfile(po) else None
        new = open(pn, 'rb').read() if os.path.isfile(pn) else None
        for i, content in enumerate(torn_contents(old, new)):
            d = os.path.join(store, '%s_%s_%d' % (tag, rel.replace('/', '_'), i))
            shutil.copytree(prev, d, symlinks=True)
            tgt = os.path.join(d, rel)
            os.makedirs(os.path.dirname(tgt), exist_ok=True)
            with open(tgt, 'wb') as f:
                f.write(content)
            out.append((rel, len(content), d))
    return out
