"""Crash points: every distinct on-disk state between two executed source
lines inside darr/ during a call, and synthesized torn variants of every file
write between consecutive states."""
import hashlib
import os
import shutil
import sys
import tempfile


def fingerprint(root):
    out = []
    for dp, dn, fn in os.walk(root):
        dn.sort()
        for f in sorted(fn):
            p = os.path.join(dp, f)
            try:
                with open(p, 'rb') as fh:
                    h = hashlib.md5(fh.read()).hexdigest()
            except OSError:
                h = None
            out.append((os.path.relpath(p, root), h))
        for d in dn:
            out.append((os.path.relpath(os.path.join(dp, d), root) + '/', 'd'))
    return tuple(out)


_AUDIT = {'on': None}


def _audit(event, args):
    sn = _AUDIT['on']
    if sn is not None and event == 'open':
        try:
            path, mode, flags = args[0], args[1], args[2]
            if isinstance(path, (str, bytes, os.PathLike)):
                sn.opens.append((len(sn.snaps), os.path.abspath(os.fsdecode(path)), mode, flags))
        except Exception:
            pass


_AUDIT_INSTALLED = []


class Snapshots:
    """run fn() under sys.settrace; copy `root` aside whenever its content
    changed between two executed lines of code under `srcprefix`"""

    def __init__(self, root, store, srcprefix=None):
        srcprefix = srcprefix or (os.path.abspath(os.environ.get('VERIF_REPO', '/repo')) + '/darr/')
        self.root, self.store, self.srcprefix = root, store, srcprefix
        self.snaps = []      # list of (where, dir copy path)
        self.last = None
        self.events = 0
        self.opens = []      # (number of snapshots taken so far, path, mode, flags) of every open() in the process

    def _take(self, where):
        fp = fingerprint(self.root)
        if fp != self.last:
            self.last = fp
            d = os.path.join(self.store, 'snap%03d' % len(self.snaps))
            if os.path.exists(self.root):
                # an armed RLIMIT_FSIZE (write-fault scenarios) must not hit our own copy
                import resource
                lim = resource.getrlimit(resource.RLIMIT_FSIZE)
                resource.setrlimit(resource.RLIMIT_FSIZE, (lim[1], lim[1]))
                try:
                    shutil.copytree(self.root, d, symlinks=True)
                finally:
                    resource.setrlimit(resource.RLIMIT_FSIZE, lim)
            else:
                os.makedirs(d + '.gone')
                d = d + '.gone'
            self.snaps.append((where, d))

    def _global(self, frame, event, arg):
        if frame.f_code.co_filename.startswith(self.srcprefix) and '/tests/' not in frame.f_code.co_filename:
            return self._local
        return None

    def _local(self, frame, event, arg):
        if event in ('line', 'return'):
            self.events += 1
            self._take('%s:%d' % (os.path.basename(frame.f_code.co_filename), frame.f_lineno))
        return self._local

    def run(self, fn):
        self._take('start')
        exc = None
        if not _AUDIT_INSTALLED:
            sys.addaudithook(_audit)
            _AUDIT_INSTALLED.append(True)
        old = sys.gettrace()
        _AUDIT['on'] = self
        sys.settrace(self._global)
        try:
            fn()
        except Exception as e:   # noqa
            exc = e
        finally:
            sys.settrace(old)
            _AUDIT['on'] = None
        self._take('end')
        return exc

    def inplace_files(self, i):
        """names (relative to root) of files that were opened for update WITHOUT truncation (r+, no O_TRUNC) while
        the disk went from snapshot i-1 to snapshot i: a write torn there leaves new bytes followed by old ones"""
        out = set()
        root = os.path.abspath(self.root)
        for (n, path, mode, flags) in self.opens:
            if i - 2 <= n <= i and path.startswith(root + os.sep):
                trunc = bool(flags & os.O_TRUNC) if isinstance(flags, int) else ('w' in str(mode))
                writes = isinstance(flags, int) and bool(flags & (os.O_WRONLY | os.O_RDWR))
                if writes and not trunc and not (isinstance(flags, int) and flags & os.O_APPEND):
                    out.add(os.path.relpath(path, root))
        return out


def changed_files(a, b):
    """relative names of regular files whose content differs between dirs a, b"""
    fa, fb = dict(fingerprint(a)), dict(fingerprint(b))
    return [k for k in sorted(set(fa) | set(fb)) if fa.get(k) != fb.get(k) and not k.endswith('/')]


def torn_contents(old, new, inplace=False):
    """plausible contents of a file caught in the middle of the write that
    turns `old` (bytes or None) into `new` (bytes or None); inplace: the file
    was opened for update without truncation"""
    out = []
    if inplace and old and new is not None and not new.startswith(old):
        # overwritten from offset 0, cut to size afterwards: new bytes up to n, old bytes from n on
        diff = [k for k in range(min(len(old), len(new))) if old[k] != new[k]]
        cuts = set()
        for k in diff[:3] + diff[-3:]:
            cuts.update((k, k + 1))
        cuts.update((1, len(new) // 2, len(new) - 1))
        for n in sorted(cuts):
            if 0 < n < max(len(old), len(new)):
                out.append(new[:n] + old[n:])
        if len(new) < len(old):
            out.append(new + old[len(new):])      # everything written, not yet cut to size
        return [c for c in dict.fromkeys(out) if c != old and c != new]
    if new is None:           # unlink is atomic
        return out
    old = old or b''
    if new.startswith(old) and len(new) > len(old):        # append
        app = new[len(old):]
        for n in sorted({1, len(app) // 2, len(app) - 1, max(1, len(app) // 3)}):
            if 0 < n < len(app):
                out.append(old + app[:n])
    elif old.startswith(new) and len(new) < len(old):       # truncate: atomic
        pass
    else:                                                   # rewrite in place: open('w') then write
        out.append(b'')
        for n in sorted({1, len(new) // 2, len(new) - 1}):
            if 0 < n < len(new):
                out.append(new[:n])
    return out


def torn_variants(prev, nxt, store, tag, inplace=()):
    """directories = nxt with one changed file replaced by a torn content"""
    out = []
    for rel in changed_files(prev, nxt):
        po, pn = os.path.join(prev, rel), os.path.join(nxt, rel)
        old = open(po, 'rb').read() if os.path.isfile(po) else None
        new = open(pn, 'rb').read() if os.path.isfile(pn) else None
        for i, content in enumerate(torn_contents(old, new, inplace=rel in inplace)):
            d = os.path.join(store, '%s_%s_%d' % (tag, rel.replace('/', '_'), i))
            shutil.copytree(prev, d, symlinks=True)
            tgt = os.path.join(d, rel)
            os.makedirs(os.path.dirname(tgt), exist_ok=True)
            with open(tgt, 'wb') as f:
                f.write(content)
            out.append((rel, len(content), d))
    return out
