"""Binding between spec/Array.tla and darr.Array: TLC instances, the driver
that performs a macro-edge on the real code, and the projection pi."""
import json
import os
import resource
import shutil
import signal
import tempfile
import warnings

import numpy as np

from . import tlc, tlaparse, disk
from .concretize import Config, GARBAGE

warnings.simplefilter('ignore')
NONINT = 777777


# ------------------------------------------------------------------ instances
def tlaset(xs):
    return '{' + ', '.join(tlaval(x) for x in xs) + '}'


def tlaval(x):
    if isinstance(x, bool):
        return 'TRUE' if x else 'FALSE'
    if isinstance(x, int):
        return str(x)
    if isinstance(x, str):
        return '"%s"' % x
    if isinstance(x, (set, frozenset, list)):
        return tlaset(sorted(x, key=repr))
    if isinstance(x, tuple):
        return '<<' + ', '.join(tlaval(y) for y in x) + '>>'
    if isinstance(x, dict):
        return '[' + ', '.join('%s |-> %s' % (k, tlaval(v)) for k, v in x.items()) + ']'
    raise TypeError(x)


DEFAULTS = dict(RowIds=[1, 2], MaxRows=3, RowBytes=4, MaxChunkLen=2, MaxChunks=2,
                TruncArgs=list(range(-4, 5)), SetIdx=[-1, 0, 1, 3], Keys=['k1', 'k2'], Vals=[1, 2],
                Ops=['append', 'truncate', 'setitem', 'mode', 'reopen'], Faults=False, Crashes=False,
                InitLens=[0, 1], InitModes=['r+'], InitMetas=[{'k1': 0, 'k2': 0}])


def instance(name, invariants, properties=(), **over):
    """returns (module name, module text, cfg text)"""
    c = dict(DEFAULTS)
    c.update(over)
    mod = 'MC_' + name
    lines = ['---- MODULE %s ----' % mod, 'EXTENDS Array']
    cfg = ['SPECIFICATION Spec', 'CONSTANTS']
    for k, v in c.items():
        lines.append('c_%s == %s' % (k, tlaval(v)))
        cfg.append(' %s <- c_%s' % (k, k))
    lines.append('====')
    for i in invariants:
        cfg.append('INVARIANT %s' % i)
    for p in properties:
        cfg.append('PROPERTY %s' % p)
    return mod, '\n'.join(lines) + '\n', '\n'.join(cfg) + '\n'


ALL_INV = ['WellFormedArray', 'Model_Array', 'AppendKeepsPrefix', 'TruncKeepsPrefix', 'Readme_Current',
           'Meta_Model', 'FailedAppendExact', 'CrashSafe', 'TypeOK']


def run_instance(name, invariants=ALL_INV, properties=("ReadOnly",), dump=True, workers=16, timeout=900, **over):
    mod, text, cfg = instance(name, invariants, properties, **over)
    wd = tlc.workdir()
    with open(os.path.join(wd, mod + '.tla'), 'w') as f:
        f.write(text)
    dumpf = os.path.join(wd, mod + '_graph') if dump else None
    r = tlc.run(mod, cfg, wd=wd, workers=workers, dump=dumpf, timeout=timeout)
    tlc.must_pass(r, mod)
    g = tlaparse.dot(dumpf + '.dot') if dump else None
    return r, g


def quiescent(s):
    return s['pc'].get('op') == 'idle'


# ------------------------------------------------------------------ metadata values
META_SETS = [
    (17, 2),
    (1.5, 'text'),
    ('naïve ☃ \n\t"q"\\', [1, [2, {'a': None}]]),
    (True, None),
    (np.int32(7), np.float64(2.5)),
    (np.arange(3), np.float32(1.5)),
    (b'bytes', {'n': {'m': [1, 2.5, 'x']}}),
    (float('nan'), float('-inf')),
    (np.uint64(2 ** 63), np.array([[1.5, 2.5], [3.5, 4.5]])),
    ('rec\udcff.wav', {'path': ['x\ud800', 'ok']}),      # lone surrogates (os.fsdecode of undecodable names)
    (np.array(7), np.array([True, False])),                # 0-d array, bool array
    (1000, 2555),                                          # texts of equal length: a torn in-place rewrite stays valid JSON
    ('abcd', 'wxyz'),
    ([np.array([1, 2]), {'a': np.float32(0.5)}], {'m': np.array([[1, 0], [0, 1]], dtype='uint8'), 'z': np.array(2.5)}),
    # pairs that Python calls equal although they are different JSON values: replacing one by the other is a change
    (1, True),
    (False, 0),
    (2, 2.0),
    (5, np.array([5])),
]
KEYNAMES = [{'k1': 'k1', 'k2': 'k2'}, {'k1': 'fs', 'k2': 'clé ☃'}, {'k1': 'a b', 'k2': ''}]


def to_jsonable(x):
    """the documented conversions: NumPy numbers -> native, arrays -> lists,
    bytes -> text (independent of darr.utils.DDJSONEncoder)"""
    if isinstance(x, np.integer):
        return int(x)
    if isinstance(x, np.floating):
        return float(x)
    if isinstance(x, np.ndarray):
        return x.tolist()
    if isinstance(x, bytes):
        return x.decode('utf-8')
    if isinstance(x, dict):
        return {k: to_jsonable(v) for k, v in x.items()}
    if isinstance(x, (list, tuple)):
        return [to_jsonable(v) for v in x]
    return x


def canon(x):
    return json.dumps(x, sort_keys=True)


def image(x):
    """JSON round trip of a model value, canonical text"""
    return canon(json.loads(json.dumps(to_jsonable(x))))


class Unserialisable:
    pass


# ------------------------------------------------------------------ outcome classes
def classify(exc):
    if exc is None:
        return 'ok'
    n = type(exc).__name__
    if n == 'AppendDataError' or isinstance(exc, (KeyboardInterrupt, IterInterrupt)):
        # the outcome class of a failed append is "the call raises": a BaseException thrown
        # by the iterable may reach the caller unchanged
        return 'AppendDataError'
    for cls, name in ((KeyError, 'KeyError'), (IndexError, 'IndexError'), (TypeError, 'TypeError'),
                      (OSError, 'OSError'), (ValueError, 'ValueError')):
        if isinstance(exc, cls):
            return name
    return 'Raises:' + n


class IterFault(Exception):
    pass


class IterInterrupt(BaseException):
    """an iterable may also fail with something that is not an Exception (Ctrl-C, SystemExit, ...)"""


RAISED = (IterFault, KeyboardInterrupt, IterInterrupt)


class FsizeFault:
    """Kernel-enforced refusal of file growth: RLIMIT_FSIZE is armed right
    before the write that is to fail; the SIGXFSZ handler lifts the limit
    again, so exactly that write fails (possibly after a partial write) and
    everything after it (recovery, JSON, README) runs normally."""

    def __init__(self):
        self.fired = False
        self.armed = False
        self.old = resource.getrlimit(resource.RLIMIT_FSIZE)
        self.oldsig = None

    def _handler(self, signum, frame):
        self.fired = True
        resource.setrlimit(resource.RLIMIT_FSIZE, self.old)

    def arm(self, limit):
        self.oldsig = signal.signal(signal.SIGXFSZ, self._handler)
        resource.setrlimit(resource.RLIMIT_FSIZE, (limit, self.old[1]))
        self.armed = True

    def disarm(self):
        if self.armed:
            resource.setrlimit(resource.RLIMIT_FSIZE, self.old)
            signal.signal(signal.SIGXFSZ, self.oldsig)
            self.armed = False


class ArmingIter:
    """iterator over items that arms a write fault before handing out item p"""

    def __init__(self, items, p, fault, limit_fn):
        self.items, self.p, self.fault, self.limit_fn = list(items), p, fault, limit_fn
        self.i = 0

    def __iter__(self):
        return self

    def __next__(self):
        if self.i >= len(self.items):
            raise StopIteration
        self.i += 1
        if self.i == self.p:
            self.fault.arm(self.limit_fn())
        return self.items[self.i - 1]


class Skip(Exception):
    pass


class ImplFailure(Exception):
    """creating the start state (a creation call with valid arguments) failed in the implementation"""


# ------------------------------------------------------------------ session
class Session:
    """a real array directory + live handle, driven by spec labels"""

    def __init__(self, cfg, metaset=0, keyset=0, root=None):
        import darr
        self.darr = darr
        self.cfg = cfg
        self.metaset = metaset % len(META_SETS)
        self.keys = KEYNAMES[keyset % len(KEYNAMES)]
        self.rkeys = {v: k for k, v in self.keys.items()}
        self.root = root or tempfile.mkdtemp(prefix='darrsess_')
        self.own_root = root is None
        self.path = os.path.join(self.root, 'a.darr')
        self.a = None
        self.ret = None
        self.n = 0

    def close(self):
        self.exit_contexts()
        self.a = None
        if self.own_root:
            shutil.rmtree(self.root, ignore_errors=True)

    # -- values
    def mval(self, v):
        return META_SETS[self.metaset][v - 1]

    def mdict(self, m):
        return {self.keys[k]: self.mval(v) for k, v in m.items() if v != 0}

    def mabs(self, concrete):
        """abstract a concrete (JSON-loaded) value"""
        c = canon(concrete)
        for v in (1, 2):
            if image(self.mval(v)) == c:
                return v
        return GARBAGE

    # -- materialise an abstract quiescent state through the creation API
    def materialize(self, st):
        if os.path.exists(self.path):
            shutil.rmtree(self.path)
        rows = st['ref']
        arr = self.cfg.initial(rows)
        # the creation input comes in several memory layouts too (same values)
        if self.cfg.form == 'forder' and arr.ndim >= 2:
            arr = np.asfortranarray(arr)
        elif self.cfg.form == 'wider' and len(arr):
            big = np.zeros((2 * arr.shape[0],) + arr.shape[1:], dtype=arr.dtype)
            big[::2] = arr
            arr = big[::2]
        elif self.cfg.form == 'tuple' and arr.ndim >= 2:
            arr = np.ascontiguousarray(arr.T).T
        md = self.mdict(_asmap(st['refmeta']))
        cx = st.get('cx') or {'on': False}
        self.exit_contexts()
        first = arr[:cx['len']] if cx['on'] else arr
        try:
            self.a = self.darr.asarray(self.path, first, accessmode='r+' if cx['on'] else st['mode'], metadata=md or None)
        except Exception as e:
            raise ImplFailure('asarray(%s %s, metadata=%r) failed: %r' % (arr.dtype.str, arr.shape, md, e)) from None
        if cx['on']:
            # the state was reached inside a context opened when the array had cx.len rows
            self.do_EnterCtx(cx['mode'])
            if len(arr) > cx['len']:
                self.a.append(arr[cx['len']:])
            if st['mode'] != 'r+':
                self.a.accessmode = st['mode']
        if st.get('mmode', st['mode']) != st['mode']:
            self.a.metadata.accessmode = st['mmode']
        self.ret = None

    # -- open_array() contexts / suspended iterchunks generators holding the shared map
    def do_EnterCtx(self, m):
        self.nctx = getattr(self, 'nctx', 0) + 1
        kw = {} if m == 'default' else {'accessmode': m}
        if self.nctx % 3 == 0 and len(self.a) > 0:
            g = self.a.iterchunks(1, **kw)          # a generator suspended after its first chunk
            next(g)
            self.ctxs.append(('gen', g))
        else:
            cm = self.a.open_array(**kw)
            cm.__enter__()
            self.ctxs.append(('ctx', cm))

    def do_ExitCtx(self):
        kind, c = self.ctxs.pop()
        if kind == 'gen':
            c.close()
        else:
            c.__exit__(None, None, None)

    def exit_contexts(self):
        while getattr(self, 'ctxs', None):
            try:
                self.do_ExitCtx()
            except Exception:
                pass
        self.ctxs = []

    # -- one public call
    def step(self, name, args):
        """perform the call named by a spec label; returns (outcome class, exception)"""
        self.ret = None
        self.alt = None
        exc = None
        try:
            getattr(self, 'do_' + name)(*args)
        except Skip:
            raise
        except (Exception, KeyboardInterrupt, IterInterrupt) as e:   # noqa
            # keep no reference to the exception object: its traceback would keep
            # frames (and whatever they hold open) alive into the next call
            return classify(e), repr(e)[:300]
        return classify(exc), exc

    def _chunks(self, cs):
        out = []
        for c in cs:
            if len(c) == 0 and self.cfg.tail != ():
                out.append(self.cfg.rows_array(()))
            elif len(c) == 0:
                out.append([] if self.cfg.form in ('list', 'tuple') else self.cfg.rows_array(()))
            else:
                eb = self.cfg.expected_chunk_bytes(c)
                self.cfg.register(eb, c)
                out.append(self.cfg.chunk(c))
        return out

    def bad_item(self, kind):
        t = self.cfg.tail
        # incompatible chunks also come WITHOUT rows (NumPy's concatenate refuses (0, 3) onto (n, 2) as well)
        self.nbadrows = getattr(self, 'nbadrows', self.cfg.rowbytes) + 1
        r = [1, 2, 0][self.nbadrows % 3]
        if kind == 'shape':
            if t == ():
                return np.ones((r, 2), dtype=self.cfg.numtype)
            return np.ones((r,) + t[:-1] + (t[-1] + 1,), dtype=self.cfg.numtype)
        if kind == 'rank':
            if t == ():
                return np.ones((r, 1, 1), dtype=self.cfg.numtype)
            # for an N-D array a bare number (no __len__) or a 0-d array has the wrong rank, too
            self.n += 1
            return [np.ones((2,) + t + (1,), dtype=self.cfg.numtype), 7, np.float64(7), np.array(7),
                    np.ones((t[0],), dtype=self.cfg.numtype)][self.n % 5]
        if kind == 'conv':
            self.nconv = getattr(self, 'nconv', self.cfg.rowbytes) + 1
            if self.cfg.dtype.kind in 'iu' and self.nconv % 2 == 0:
                return None            # None cannot become an integer (it would become NaN in a float array)
            return [['not a number'] * 1] if t == () else 'abc'
        raise ValueError(kind)

    def do_IA_Call(self, cs, f, via):
        a = self.a
        if via == 'noniter':
            a.iterappend(12345)
            return
        chunks = self._chunks(cs)
        kind = f['kind']
        if via == 'append':
            if kind == 'write':
                flt = FsizeFault()
                try:
                    flt.arm(self._limit(f))
                    a.append(chunks[0])
                finally:
                    flt.disarm()
            else:
                a.append(chunks[0])
            return
        if kind == 'none':
            a.iterappend(self.cfg.iterable(chunks))
        elif kind == 'raise':
            def gen():
                for c in chunks:
                    yield c
                raise exc_class('iterable raises')
            self.nraise = getattr(self, 'nraise', len(chunks) + self.cfg.rowbytes) + 1
            exc_class = RAISED[self.nraise % 3]
            a.iterappend(gen())
        elif kind in ('shape', 'rank', 'conv'):
            a.iterappend(self.cfg.iterable(chunks + [self.bad_item(kind)]))
        elif kind == 'write':
            flt = FsizeFault()
            try:
                a.iterappend(ArmingIter(chunks, f['at'], flt, lambda: self._limit(f)))
            finally:
                flt.disarm()
        else:
            raise ValueError(kind)

    def do_IA_CallBadAppend(self, kd):
        self.a.append(self.bad_item(kd))

    def real_b(self, b, rowbytes_abs=4):
        return max(1, (b * self.cfg.rowbytes) // rowbytes_abs) if b else 0

    def _limit(self, f):
        """file offset at which the write that is about to happen stops"""
        rb = self.cfg.rowbytes
        if rb < 4:
            raise Skip('rows too small for mid-row offsets')
        now = os.path.getsize(os.path.join(self.path, disk.DATA))
        if len(self.a) == 0:
            now = 0   # the first chunk of an empty array is written by path (truncating)
        return now + f['k'] * rb + self.real_b(f['b'])

    def do_TR_Call(self, i):
        self.alt = None
        if i == NONINT:
            i = [2.0, '1', None][self.n % 3]
            self.n += 1
        else:
            i = self.int_form(i, ('TR_Call', [NONINT]))
        self.darr.truncate_array(self.a, i)

    def int_form(self, i, alt):
        """an integer argument as a Python int or as a NumPy integer of some width.  Whether NumPy integers are
        accepted is the library's choice: refusing them like any non-integer (`alt`) or treating them as the int"""
        if getattr(self, 'plain_ints', False):
            return i
        self.nint = getattr(self, 'nint', self.cfg.rowbytes) + 1
        t = [None, None, None, np.uint8, None, None, np.int8, None, None, np.int64, None, np.int16][self.nint % 12]
        if t is None:
            return i
        info = np.iinfo(t)
        if not (info.min <= i <= info.max):
            return i
        self.alt = alt
        return t(i)

    def do_SetItem(self, i, rid):
        v = self.cfg.row(rid)
        if self.cfg.form in ('list', 'tuple') and self.cfg.valset == 0:
            v = v.tolist()
        self.a[i] = v

    def do_Delete(self):
        self.darr.delete_array(self.a)

    def do_SetMode(self, m):
        self.a.accessmode = m

    def do_SetMetaMode(self, m):
        self.a.metadata.accessmode = m

    def do_Reopen(self, m):
        self.a = self.darr.Array(self.path, accessmode=m)

    def do_M_Call(self, kd, k, v):
        md = self.a.metadata
        key = self.keys[k]
        if kd == 'update':
            md.update({key: self.mval(v)})
        elif kd == 'setitem':
            md[key] = self.mval(v)
        elif kd == 'update0':
            md.update({})
        elif kd == 'updateall':
            # every key in one call (as a dict, as keyword arguments when the names allow it, or as pairs)
            d = {self.keys[q]: self.mval(v) for q in sorted(self.keys)}
            self.nall = getattr(self, 'nall', 0) + 1
            if self.nall % 3 == 1 and all(kk.isidentifier() for kk in d):
                md.update(**d)
            elif self.nall % 3 == 2:
                md.update(list(d.items()))
            else:
                md.update(d)
        elif kd == 'updatebad':
            # values of several kinds that JSON cannot hold (bytes that are not text among them)
            self.nbad = getattr(self, 'nbad', len(key)) + 1
            bad = [Unserialisable(), b'\xff\xfe', {1, 2}, complex(1, 2), [1, {'deep': b'\x80'}]][self.nbad % 5]
            md.update({key: bad})
        elif kd == 'pop':
            self.ret = md.pop(key)
        elif kd == 'popd':
            # defaults of several kinds, including one that IS the stored value (None, True and
            # small ints are shared objects): the key must go whatever the default is
            self.n += 1
            cur = dict(md)
            dflt = ['#default', None, cur.get(key, 7), True][self.n % 4]
            self.ret = md.pop(key, dflt)
        elif kd == 'popitem':
            self.ret = md.popitem()
        elif kd == 'del':
            del md[key]
        else:
            raise ValueError(kd)

    # -- projection pi
    def observe(self, fault_b=False):
        cfg = self.cfg
        d = disk.ArrayDir(self.path)
        o = {'exists': d.exists}
        # disk: descriptor
        if d.dstate != 'ok':
            o['descr'] = {'k': 'torn' if d.dstate == 'torn' else 'absent'}
        elif d.dproblem:
            o['descr'] = {'k': 'bad', 'why': d.dproblem}
        else:
            why = None
            if d.numtype != cfg.numtype:
                why = 'numtype %s' % d.numtype
            elif d.byteorder != cfg.byteorder and cfg.dtype.itemsize > 1:
                why = 'byteorder %s' % d.byteorder
            elif d.shape[1:] != cfg.tail:
                why = 'trailing shape %s' % (d.shape[1:],)
            elif d.descr.get('darrobject') != 'Array':
                why = 'darrobject'
            o['descr'] = {'k': 'bad', 'why': why} if why else {'k': 'ok', 'len': d.shape[0]}
        # disk: data
        if d.has_data:
            rr, t = d.rows_raw(cfg.rowbytes)
            o['rows'] = cfg.decode_rows(rr)
            o['tail_bytes'] = t
            o['datasize'] = d.datasize
        else:
            o['rows'] = None
            o['tail_bytes'] = -1
        # disk: README
        if d.readme is None:
            o['readme'] = {'k': 'absent'}
        else:
            st = disk.readme_stamp(d.readme)
            if st is None:
                o['readme'] = {'k': 'torn'}
            elif st['numtype'] != cfg.numtype or (st['byteorder'] != cfg.byteorder and cfg.dtype.itemsize > 1) \
                    or st['shape'][1:] != cfg.tail:
                o['readme'] = {'k': 'bad', 'why': st}
            else:
                o['readme'] = {'k': 'ok', 'len': st['shape'][0], 'hasmeta': st['hasmeta']}
        o['readme_bytes'] = d.readme
        # disk: metadata
        if d.mstate == 'absent':
            o['meta'] = {'k': 'absent'}
        elif d.mstate == 'torn' or not isinstance(d.meta, dict):
            o['meta'] = {'k': 'torn'}
        else:
            m = {'k1': 0, 'k2': 0}
            extra = []
            for kk, vv in d.meta.items():
                if kk in self.rkeys:
                    m[self.rkeys[kk]] = self.mabs(vv)
                else:
                    extra.append(kk)
            o['meta'] = {'k': 'ok', 'd': m}
            if extra:
                o['meta']['extra'] = extra
        o['names'] = d.names
        # live handle
        a = self.a
        live = {}
        try:
            live['mode'] = a.accessmode
            live['mmode'] = a.metadata.accessmode
            live['hlen'] = len(a)
            live['shape'] = tuple(a.shape)
            live['size'] = a.size
            live['nbytes'] = a.nbytes
            live['dtype'] = a.dtype.str
            live['ndim'] = a.ndim
            v = a[:]
            live['rows'] = cfg.decode_rows([np.ascontiguousarray(v[i:i + 1]).tobytes() for i in range(len(v))])
            live['vdtype'] = v.dtype.str
            live['vshape'] = tuple(v.shape)
        except Exception as e:
            live['error'] = repr(e)
        o['live'] = live
        # live metadata accessors
        try:
            md = a.metadata
            dd = dict(md)
            lm = {'k1': 0, 'k2': 0}
            for kk, vv in dd.items():
                if kk in self.rkeys:
                    lm[self.rkeys[kk]] = self.mabs(vv)
            acc_ok = (len(md) == len(dd) and sorted(md.keys()) == sorted(dd.keys())
                      and all((k in md) for k in dd) and ('#nokey' not in md)
                      and all(canon(md[k]) == canon(dd[k]) for k in dd)
                      and all(canon(md.get(k)) == canon(dd[k]) for k in dd)
                      and all(canon(md.get(k, '#default')) == canon(dd[k]) for k in dd)
                      and md.get('#nokey') is None and md.get('#nokey', 5) == 5
                      and sorted(canon(x) for x in md.values()) == sorted(canon(x) for x in dd.values())
                      and sorted((k, canon(x)) for k, x in md.items()) == sorted((k, canon(x)) for k, x in dd.items()))
            o['livemeta'] = {'d': lm, 'accessors_agree': acc_ok, 'n': len(dd)}
        except Exception as e:
            o['livemeta'] = {'error': repr(e)}
        # fresh handle
        fresh = {}
        try:
            b = self.darr.Array(self.path)
            v = b[:]
            fresh['rows'] = cfg.decode_rows([np.ascontiguousarray(v[i:i + 1]).tobytes() for i in range(len(v))])
            fresh['hlen'] = len(b)
            fresh['shape'] = tuple(b.shape)
            fresh['dtype'] = b.dtype.str
            fresh['size'] = b.size
            fresh['nbytes'] = b.nbytes
            try:
                fm = {'k1': 0, 'k2': 0}
                for kk, vv in dict(b.metadata).items():
                    if kk in self.rkeys:
                        fm[self.rkeys[kk]] = self.mabs(vv)
                fresh['meta'] = fm
                fresh['nmeta'] = len(b.metadata)
            except Exception as e:
                fresh['meta_error'] = repr(e)
            # C08: the README Darr generates for the current on-disk state
            try:
                from darr.array import readcodetxt
                fresh['readme_regen'] = readcodetxt(b).encode('utf-8')
            except Exception as e:
                fresh['readme_error'] = repr(e)
            # C02: what the API reports, for comparison with the independent reader
            fresh['api_bytes_equal_file'] = (np.ascontiguousarray(v).tobytes() == (d.raw() if d.has_data else None))
            fresh['api_dtype_name'] = b.dtype.name
            fresh['api_byteorder'] = 'little' if (b.dtype.byteorder == '<' or (b.dtype.byteorder in '=|' and np.little_endian)) else 'big'
        except Exception as e:
            fresh['raises'] = type(e).__name__
        o['fresh'] = fresh
        return o


def _asmap(m):
    if isinstance(m, tuple) and len(m) == 0:
        return {'k1': 0, 'k2': 0}
    return dict(m)


# ------------------------------------------------------------------ comparison
def expected_view(st):
    """normalise a spec state (parsed) for comparison"""
    e = dict(st)
    e['refmeta'] = _asmap(st['refmeta'])
    if st['meta'].get('k') == 'ok':
        e['meta'] = {'k': 'ok', 'd': _asmap(st['meta']['d'])}
    return e


def out_agrees(spec_out, obs_out, strict):
    if spec_out == 'ok' or obs_out == 'ok':
        return spec_out == obs_out
    if not strict or spec_out == 'Raises':
        return True
    return spec_out == obs_out


def compare(prop, exp, obs, obs_out, ret=None, sess=None, strict_out=True):
    """list of (variable, expected, observed) mismatches that belong to `prop`.
    exp: expected spec state (expected_view); obs: Session.observe()"""
    mm = []
    cfg = sess.cfg if sess else None
    live, fresh = obs['live'], obs['fresh']
    if exp.get('gone'):
        if obs['exists']:
            mm.append(('array directory', 'removed', 'still exists: %s' % obs['names']))
        return mm
    if not obs['exists']:
        return [('array directory', 'exists', 'missing')]
    if prop == 'C03':
        if not out_agrees(exp['out'], obs_out, strict=False):
            mm.append(('out', exp['out'], obs_out))
        if obs['rows'] != tuple(exp['rows']):
            mm.append(('disk rows', exp['rows'], obs['rows']))
        if 'error' in live:
            mm.append(('live handle', 'usable', live['error']))
        else:
            if live['hlen'] != exp['hlen']:
                mm.append(('len(a)', exp['hlen'], live['hlen']))
            cxe = exp.get('cx') or {'on': False}
            # inside an open context reads go through the map that was opened (LiveView of the spec: the
            # rows it was opened for); showing the current rows instead would be just as good
            views = [tuple(exp['ref'])] + ([tuple(exp['ref'][:cxe['len']])] if cxe['on'] else [])
            if live['rows'] not in views:
                mm.append(('a[:]', views, live['rows']))
            n = exp['hlen']
            nv = len(live['rows'])
            per = int(np.prod(cfg.tail)) if cfg.tail else 1
            if live['shape'] != (n,) + cfg.tail or live['size'] != n * per or \
                    live['nbytes'] != n * per * cfg.dtype.itemsize or live['dtype'] != cfg.dtype.str or \
                    live['vdtype'] != cfg.dtype.str or live['vshape'] != (nv,) + cfg.tail:
                mm.append(('shape/size/nbytes/dtype', ((n,) + cfg.tail, n * per, cfg.dtype.str),
                           (live['shape'], live['size'], live['nbytes'], live['dtype'], live['vdtype'])))
            if live['mode'] != exp['mode']:
                mm.append(('accessmode', exp['mode'], live['mode']))
        if 'raises' in fresh:
            mm.append(('fresh open', exp['ref'], 'raises ' + fresh['raises']))
        else:
            if fresh['rows'] != tuple(exp['ref']) or fresh['hlen'] != len(exp['ref']):
                mm.append(('fresh a[:]', exp['ref'], fresh['rows']))
            if fresh['dtype'] != cfg.dtype.str or fresh['shape'] != (len(exp['ref']),) + cfg.tail:
                mm.append(('fresh dtype/shape', (cfg.dtype.str,), (fresh['dtype'], fresh['shape'])))
    elif prop == 'C02':
        if obs['descr'] != {'k': 'ok', 'len': exp['descr']['len']}:
            mm.append(('arraydescription.json', exp['descr'], obs['descr']))
        if obs['tail_bytes'] != 0:
            mm.append(('data file tail bytes', 0, obs['tail_bytes']))
        if obs['rows'] != tuple(exp['rows']):
            mm.append(('raw rows', exp['rows'], obs['rows']))
        if obs['descr'].get('k') == 'ok' and obs.get('datasize') != obs['descr']['len'] * cfg.rowbytes:
            mm.append(('file length', obs['descr']['len'] * cfg.rowbytes, obs.get('datasize')))
        if obs['readme']['k'] == 'absent':
            mm.append(('README.txt', 'present', 'absent'))
        if 'raises' not in fresh:
            if not fresh['api_bytes_equal_file'] or fresh['api_dtype_name'] != cfg.numtype or \
                    (fresh['api_byteorder'] != cfg.byteorder and cfg.dtype.itemsize > 1) or \
                    fresh['shape'][1:] != cfg.tail or \
                    (obs['descr'].get('k') == 'ok' and fresh['shape'][0] != obs['descr']['len']):
                mm.append(('API vs independent reader', 'equal', (fresh['api_dtype_name'], fresh['api_byteorder'], fresh['shape'], fresh['api_bytes_equal_file'])))
        else:
            mm.append(('fresh open', 'opens', 'raises ' + fresh['raises']))
    elif prop == 'C08':
        er = exp['readme']
        if obs['readme'] != er:
            mm.append(('README stamp', er, obs['readme']))
        if 'readme_regen' in fresh and obs['readme_bytes'] != fresh['readme_regen']:
            mm.append(('README bytes vs regenerated', 'equal', _firstdiff(obs['readme_bytes'], fresh['readme_regen'])))
        if 'readme_error' in fresh:
            mm.append(('README regeneration', 'works', fresh['readme_error']))
    elif prop == 'C13':
        if not out_agrees(exp['out'], obs_out, strict=strict_out):
            mm.append(('out', exp['out'], obs_out))
        em = exp['meta']
        if obs['meta'] != em:
            mm.append(('metadata.json', em, obs['meta']))
        lm = obs['livemeta']
        if 'error' in lm:
            mm.append(('live metadata', exp['refmeta'], lm['error']))
        else:
            if lm['d'] != exp['refmeta'] or lm['n'] != sum(1 for v in exp['refmeta'].values() if v):
                mm.append(('dict(a.metadata)', exp['refmeta'], lm['d']))
            if not lm['accessors_agree']:
                mm.append(('metadata accessors', 'agree with dict()', 'disagree'))
        if 'meta' in fresh and fresh['meta'] != exp['refmeta']:
            mm.append(('fresh metadata', exp['refmeta'], fresh['meta']))
        if 'meta_error' in fresh:
            mm.append(('fresh metadata', exp['refmeta'], fresh['meta_error']))
        if ret is not None and exp['out'] == 'ok' and exp['ret'] not in (0,):
            pass
    elif prop == 'C09':
        if exp['out'] != 'ok' and obs_out == 'ok':
            mm.append(('out', exp['out'], obs_out))
        if obs['rows'] != tuple(exp['rows']) or obs['tail_bytes'] != 0:
            mm.append(('disk rows/tail', (exp['rows'], 0), (obs['rows'], obs['tail_bytes'])))
        if obs['descr'] != {'k': 'ok', 'len': exp['descr']['len']}:
            mm.append(('arraydescription.json', exp['descr'], obs['descr']))
        if 'error' in live:
            mm.append(('live handle', 'usable', live['error']))
        elif live['hlen'] != exp['hlen'] or live['rows'] != tuple(exp['ref']):
            mm.append(('live handle', (exp['hlen'], exp['ref']), (live['hlen'], live['rows'])))
        if 'raises' in fresh:
            mm.append(('fresh open', exp['ref'], 'raises ' + fresh['raises']))
        elif fresh['rows'] != tuple(exp['ref']):
            mm.append(('fresh a[:]', exp['ref'], fresh['rows']))
    else:
        raise ValueError(prop)
    return mm


def _firstdiff(a, b):
    if a is None or b is None:
        return 'missing'
    n = min(len(a), len(b))
    for i in range(n):
        if a[i] != b[i]:
            return {'at': i, 'readme': a[max(0, i - 40):i + 60].decode('utf-8', 'replace'),
                    'regenerated': b[max(0, i - 40):i + 60].decode('utf-8', 'replace')}
    return {'at': n, 'len_readme': len(a), 'len_regenerated': len(b)}
