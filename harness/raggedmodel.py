"""Binding between spec/Ragged.tla and darr.RaggedArray."""
import json
import os
import random
import shutil
import struct
import tempfile
import warnings

import numpy as np

from . import tlc, tlaparse, disk
from .arraymodel import (tlaval, classify, IterFault, IterInterrupt, RAISED, Skip, FsizeFault, ArmingIter, NONINT, out_agrees, _firstdiff)
from .concretize import Config, GARBAGE, INDEXTYPES, NUMTYPES, BYTEORDERS

warnings.simplefilter('ignore')
NONE_V = -999999
INDEX_ERR = -999998

DEFAULTS = dict(RowIds=[1, 2], MaxSub=3, MaxItemLen=2, MaxItems=2, TruncArgs=list(range(-4, 5)),
                Ops=['append', 'truncate', 'mode', 'reopen'], Faults=False, Crashes=False,
                InitRefs=[(), ((1, 2), ())], InitModes=['r+'], ListFirst=5, IdxMax=1000)
ALL_INV = ['WellFormedRagged', 'Model_Ragged', 'Readme_Current', 'FailedAppendExact', 'CrashSafe', 'TypeOK']


def instance(name, invariants, properties=(), **over):
    c = dict(DEFAULTS)
    c.update(over)
    mod = 'MC_' + name
    lines = ['---- MODULE %s ----' % mod, 'EXTENDS Ragged']
    cfg = ['SPECIFICATION Spec', 'CONSTANTS']
    for k, v in c.items():
        lines.append('c_%s == %s' % (k, tlaval(v)))
        cfg.append(' %s <- c_%s' % (k, k))
    lines.append('====')
    for i in invariants:
        cfg.append('INVARIANT %s' % i)
    for p in properties:
        cfg.append('PROPERTY %s' % p)
    return mod, '\n'.join(lines) + '\n', '\n'.join(cfg) + '\n'


def run_instance(name, invariants=ALL_INV, properties=("ReadOnly",), dump=True, workers=16, timeout=900, **over):
    mod, text, cfg = instance(name, invariants, properties, **over)
    wd = tlc.workdir()
    with open(os.path.join(wd, mod + '.tla'), 'w') as f:
        f.write(text)
    dumpf = os.path.join(wd, mod + '_graph') if dump else None
    r = tlc.run(mod, cfg, wd=wd, workers=workers, dump=dumpf, timeout=timeout)
    tlc.must_pass(r, mod)
    g = tlaparse.dot(dumpf + '.dot') if dump else None
    return r, g


def _layout(a, k):
    """the same values as a strided view, in Fortran order, or as they are"""
    form = k % 4
    if form == 1 and a.ndim >= 2 and a.shape[-1] > 1:
        big = np.zeros(a.shape[:-1] + (2 * a.shape[-1],), dtype=a.dtype)
        big[..., ::2] = a
        return big[..., ::2]
    if form == 2 and len(a) > 1:
        big = np.zeros((2 * len(a),) + a.shape[1:], dtype=a.dtype)
        big[::2] = a
        return big[::2]
    if form == 3 and a.ndim >= 2:
        return np.asfortranarray(a)
    return a


def quiescent(s):
    return s['pc'].get('op') == 'idle'


_TABLES = {}


def obs_tables(n=3):
    """TLC-evaluated meaning of ra[k] and iter_arrays(start, end, step)"""
    if n not in _TABLES:
        it = tlc.table('RaggedObs', 'IterRows(%d, -4, 4, {-2, -1, 1, 2, 3})' % n, name='iter%d' % n)
        ge = tlc.table('RaggedObs', 'GetRows(%d)' % n, name='get%d' % n)
        iters = {}
        for r in it.rows:
            iters.setdefault(r['n'], []).append(r)
        gets = {}
        for r in ge.rows:
            gets.setdefault(r['n'], []).append(r)
        _TABLES[n] = (iters, gets, it, ge)
    return _TABLES[n]


class RConfig:
    """configuration of a ragged run"""
    ATOMS = [(), (2,), (2, 3), (1,), (1, 2)]

    def __init__(self, numtype, byteorder, atom, indextype, form='native', valset=0, block=1, seed=0):
        self.v = Config(numtype, byteorder, atom, form, valset, 'list')
        self.indextype = indextype
        self.block = block
        self.seed = seed

    def as_dict(self):
        d = self.v.as_dict()
        d.update(indextype=self.indextype, block=self.block)
        d['atom'] = d.pop('tail')
        return d

    def item(self, rids, asarray=False):
        """one subarray to append: rows of rids, each repeated `block` times"""
        ex = tuple(r for r in rids for _ in range(self.block))
        if len(ex) == 0:
            if self.v.tail == () and self.v.form in ('list', 'tuple') and not asarray:
                return []
            return self.v.rows_array(())
        eb = self.v.expected_chunk_bytes(ex)
        self.v.register(eb, ex)
        c = self.v.chunk(ex)
        if self.v.form == 'scalar':
            c = self.v.rows_array(ex)
        return c

    def decode_blocks(self, rawrows):
        ids = self.v.decode_rows(rawrows)
        b = self.block
        if b == 1:
            return tuple(ids)
        if len(ids) % b:
            return tuple(ids[::b]) + (GARBAGE,)
        out = []
        for i in range(0, len(ids), b):
            grp = set(ids[i:i + b])
            out.append(ids[i] if len(grp) == 1 else GARBAGE)
        return tuple(out)


def pick_rconfigs(n, seed, overflow=False):
    rnd = random.Random(seed)
    pairs = [(nt, bo) for nt in NUMTYPES for bo in BYTEORDERS]
    rnd.shuffle(pairs)
    out = []
    for i in range(n):
        nt, bo = pairs[i % len(pairs)]
        atom = RConfig.ATOMS[(i + i // len(pairs)) % len(RConfig.ATOMS)]
        forms = ['native', 'swapped', 'list', 'wider', 'forder', 'tuple']
        form = forms[(i * 5 + i // 7) % len(forms)]
        if overflow:
            it, block = [('int8', 40), ('uint8', 80)][i % 2]
        else:
            it, block = INDEXTYPES[(i * 3 + i // 11) % len(INDEXTYPES)], 1
        out.append(RConfig(nt, bo, atom, it, form, (i // 3) % 5, block, seed))
    return out


class Session:
    def __init__(self, rcfg, root=None):
        import darr
        self.darr = darr
        self.rc = rcfg
        self.cfg = rcfg.v
        self.root = root or tempfile.mkdtemp(prefix='darrrsess_')
        self.own_root = root is None
        self.path = os.path.join(self.root, 'r.darr')
        self.ra = None
        self.n = 0
        self.rnd = random.Random(rcfg.seed)

    def describe(self):
        return self.rc.as_dict()

    def close(self):
        self.exit_contexts()
        self.ra = None
        if self.own_root:
            shutil.rmtree(self.root, ignore_errors=True)

    def materialize(self, st):
        if os.path.exists(self.path):
            shutil.rmtree(self.path)
        ref = st['ref']
        self.exit_contexts()
        uctx = st.get('uctx', 'no') != 'no'
        cmode = st.get('uctx') if uctx else None
        if not uctx and st.get('treadme', {}).get('inctx'):
            raise Skip('README left stale by an earlier context: reached by paths only')
        full = ref
        if uctx:
            ref = ref[:st['mmI']]
        try:
            if len(ref) == 0:
                self.ra = self.darr.create_raggedarray(self.path, atom=self.cfg.tail, dtype=self.cfg.dtype,
                                                       accessmode=cmode if uctx else st['mode'], indextype=self.rc.indextype)
            else:
                items = [self.cfg.rows_array(tuple(r for r in it for _ in range(self.rc.block))).astype(self.cfg.dtype)
                         for it in ref]
                # the subarrays handed to asraggedarray come in several memory layouts (same values)
                self.nlay = getattr(self, 'nlay', self.cfg.rowbytes + len(ref)) + 1
                items = [_layout(x, self.nlay + k) for k, x in enumerate(items)]
                self.ra = self.darr.asraggedarray(self.path, items, dtype=self.cfg.dtype,
                                                  accessmode=cmode if uctx else st['mode'], indextype=self.rc.indextype)
            if uctx:
                self.do_EnterCtx()
                rest = [self.cfg.rows_array(tuple(r for r in it for _ in range(self.rc.block))).astype(self.cfg.dtype)
                        for it in full[len(ref):]]
                if rest:
                    self.ra.iterappend(rest)
                if st['mode'] != cmode:
                    self.ra.accessmode = st['mode']
                # the README of a state inside a context records how it was reached (which maps were open when it
                # was last written); if this construction does not reproduce it, the state is left to the path tours
                want = expected_view(st).get('treadme')
                got = self.observe(reads=False).get('treadme')
                if want is not None and got != want:
                    raise Skip('README of a state inside a context depends on its history: reached by paths only')
        except Skip:
            raise
        except Exception as e:
            from .arraymodel import ImplFailure
            raise ImplFailure('creating a ragged array of %d subarrays (%s, index %s) failed: %r'
                              % (len(ref), self.cfg.dtype, self.rc.indextype, e)) from None

    # -- ra.open_arrays() contexts / suspended ra.iter_arrays() generators
    def do_EnterCtx(self):
        self.nctx = getattr(self, 'nctx', 0) + 1
        if self.nctx % 3 == 0 and len(self.ra) > 0:
            g = self.ra.iter_arrays()
            next(g)
            self.ctxs.append(('gen', g))
        else:
            cm = self.ra.open_arrays()
            cm.__enter__()
            self.ctxs.append(('ctx', cm))

    def do_ExitCtx(self):
        kind, c = self.ctxs.pop()
        if kind == 'gen':
            c.close()
        else:
            c.__exit__(None, None, None)

    def exit_contexts(self):
        while getattr(self, 'ctxs', None):
            try:
                self.do_ExitCtx()
            except Exception:
                pass
        self.ctxs = []

    def step(self, name, args):
        exc = None
        self.alt = None
        try:
            getattr(self, 'do_' + name)(*args)
        except Skip:
            raise
        except (Exception, KeyboardInterrupt, IterInterrupt) as e:   # noqa
            # keep no reference to the exception object: its traceback would keep
            # frames (and whatever they hold open) alive into the next call
            return classify(e), repr(e)[:300]
        return classify(exc), exc

    def bad_item(self, kind):
        t = self.cfg.tail
        self.nbadrows = getattr(self, 'nbadrows', self.cfg.rowbytes) + 1
        r = [1, 2, 0][self.nbadrows % 3]      # incompatible subarrays also come without rows
        if kind == 'atom':
            if t == ():
                return np.ones((r, 2), dtype=self.cfg.numtype)
            return np.ones((r,) + t[:-1] + (t[-1] + 1,), dtype=self.cfg.numtype)
        if kind == 'rank':
            if t == ():
                # a bare number or 0-d array is not a subarray of a ragged array of scalars either
                return [np.ones((r, 1, 1), dtype=self.cfg.numtype), 5, np.array(4.0), np.float32(2)][self.nbadrows % 4]
            return np.ones((max(r, 1),) + t + (1,), dtype=self.cfg.numtype)
        if kind == 'conv':
            if self.nbadrows % 3 == 0:
                return None
            return ['not a number'] if t == () else 'abc'
        raise ValueError(kind)

    def _vsize(self):
        return os.path.getsize(os.path.join(self.path, 'values', disk.DATA))

    def _isize(self):
        return os.path.getsize(os.path.join(self.path, 'indices', disk.DATA))

    def _limit(self, f, item_rids):
        brb = self.cfg.rowbytes * self.rc.block
        if f['kind'] == 'vwrite':
            if brb < 2:
                raise Skip('value rows too small for a mid-row offset')
            return self._vsize() + f['k'] * brb + (brb // 2 if f['b'] else 0)
        irb = 2 * np.dtype(self.rc.indextype).itemsize
        lim = self._isize() + (irb // 2 if f['b'] else 0)
        if self._vsize() + len(item_rids) * brb > lim:
            raise Skip('index-file write fault cannot be isolated from the values write')
        return lim

    def do_RA_Call(self, cs, f, via):
        ra = self.ra
        items = [self.rc.item(c) for c in cs]
        kind = f['kind']
        if via == 'append':
            if kind in ('vwrite', 'iwrite'):
                flt = FsizeFault()
                try:
                    flt.arm(self._limit(f, cs[0]))
                    ra.append(items[0])
                finally:
                    flt.disarm()
            else:
                ra.append(items[0])
            return
        if kind == 'none':
            it = [items, tuple(items), (x for x in items)][self.n % 3]
            self.n += 1
            ra.iterappend(it)
        elif kind == 'raise':
            def gen():
                for c in items:
                    yield c
                raise exc_class('iterable raises')
            self.nraise = getattr(self, 'nraise', len(items)) + 1
            exc_class = RAISED[self.nraise % 3]
            ra.iterappend(gen())
        elif kind in ('atom', 'rank', 'conv'):
            ra.iterappend(items + [self.bad_item(kind)])
        elif kind in ('vwrite', 'iwrite'):
            flt = FsizeFault()
            try:
                ra.iterappend(ArmingIter(items, f['at'], flt, lambda: self._limit(f, cs[f['at'] - 1])))
            finally:
                flt.disarm()
        else:
            raise ValueError(kind)

    def do_RA_CallBadAppend(self, kd):
        self.ra.append(self.bad_item(kd))

    def do_RT_Call(self, i):
        self.alt = None
        if i == NONINT:
            i = [2.0, '1', None][self.n % 3]
            self.n += 1
        else:
            self.nint = getattr(self, 'nint', len(self.path)) + 1
            t = [None, None, None, np.uint8, None, None, np.int8, None, None, np.int64, None, np.int16][self.nint % 12]
            if t is not None and not getattr(self, 'plain_ints', False) and np.iinfo(t).min <= i <= np.iinfo(t).max:
                i = t(i)
                self.alt = ('RT_Call', [NONINT])
        self.darr.truncate_raggedarray(self.ra, i)

    def do_SetMode(self, m):
        self.ra.accessmode = m

    def do_Reopen(self, m):
        self.ra = self.darr.RaggedArray(self.path, accessmode=m)

    def do_Delete(self):
        self.darr.delete_raggedarray(self.ra)

    # ---- projection
    def _sub(self, name):
        return disk.ArrayDir(os.path.join(self.path, name))

    def _decode_item(self, arr):
        arr = np.asarray(arr)
        return self.rc.decode_blocks([np.ascontiguousarray(arr[i:i + 1]).tobytes() for i in range(len(arr))])

    def observe(self, reads=True):
        rc, cfg = self.rc, self.cfg
        B = rc.block
        o = {'exists': os.path.isdir(self.path)}
        if not o['exists']:
            return o
        o['names'] = sorted(os.listdir(self.path))
        # values/
        v = self._sub('values')
        if v.dstate != 'ok' or v.dproblem:
            o['vdescr'] = {'k': 'torn' if v.dstate != 'ok' else 'bad', 'why': v.dproblem}
        else:
            why = None
            if v.numtype != cfg.numtype:
                why = 'numtype'
            elif v.byteorder != cfg.byteorder and cfg.dtype.itemsize > 1:
                why = 'byteorder'
            elif v.shape[1:] != cfg.tail:
                why = 'atom'
            elif v.shape[0] % B:
                why = 'length not a multiple of the block'
            o['vdescr'] = {'k': 'bad', 'why': why} if why else {'k': 'ok', 'len': v.shape[0] // B}
        if v.has_data:
            rr, t = v.rows_raw(cfg.rowbytes)
            o['vrows'] = rc.decode_blocks(rr)
            o['vtail_bytes'] = t
            o['vsize'] = v.datasize
            o['vrawn'] = len(rr)
        else:
            o['vrows'], o['vtail_bytes'] = None, -1
        o['vreadme'] = self._readme_stamp(v, cfg.numtype, cfg.byteorder, cfg.tail, cfg.dtype.itemsize, B)
        o['vreadme_bytes'] = v.readme
        # indices/
        i = self._sub('indices')
        idt = np.dtype(rc.indextype)
        if i.dstate != 'ok' or i.dproblem:
            o['idescr'] = {'k': 'torn' if i.dstate != 'ok' else 'bad', 'why': i.dproblem}
        else:
            why = None
            if i.numtype != rc.indextype:
                why = 'index type %s (requested %s)' % (i.numtype, rc.indextype)
            elif i.shape[1:] != (2,):
                why = 'index shape %s' % (i.shape,)
            o['idescr'] = {'k': 'bad', 'why': why} if why else {'k': 'ok', 'len': i.shape[0]}
        o['irows'] = None
        o['itail_bytes'] = -1
        if i.has_data:
            # decoded with the REQUESTED index type, whatever state the descriptor is in
            try:
                raw = i.raw()
                code = disk.TYPES[rc.indextype][0]
                isz = idt.itemsize
                nrow = len(raw) // (2 * isz)
                ibo = '<'
                if i.dproblem is None and i.byteorder == 'big':
                    ibo = '>'
                els = struct.unpack(ibo + str(2 * nrow) + code, raw[:nrow * 2 * isz])
                rows = []
                for k in range(nrow):
                    s_, e_ = els[2 * k], els[2 * k + 1]
                    rows.append((s_ // B if s_ % B == 0 else GARBAGE, e_ // B if e_ % B == 0 else GARBAGE))
                o['irows'] = tuple(rows)
                o['irows_real'] = tuple((els[2 * k], els[2 * k + 1]) for k in range(nrow))
                o['itail_bytes'] = len(raw) - nrow * 2 * isz
                o['isize'] = len(raw)
            except Exception as e:
                o['irows_error'] = repr(e)
        o['ireadme'] = self._readme_stamp(i, rc.indextype, i.byteorder if i.dproblem is None else None, (2,),
                                          idt.itemsize, 1)
        o['ireadme_bytes'] = i.readme
        # top-level
        ds, d = disk.read_json(os.path.join(self.path, disk.DESCR))
        if ds != 'ok' or not isinstance(d, dict):
            o['tdescr'] = {'k': 'torn' if ds != 'absent' else 'absent'}
        else:
            why = None
            for key in ('len', 'size', 'atom', 'numtype', 'darrversion', 'darrobject'):
                if key not in d:
                    why = 'missing ' + key
            if why is None:
                if d['darrobject'] != 'RaggedArray':
                    why = 'darrobject'
                elif d['numtype'] != cfg.numtype:
                    why = 'numtype'
                elif tuple(d['atom']) != cfg.tail:
                    why = 'atom'
                elif not isinstance(d['len'], int) or not isinstance(d['size'], int):
                    why = 'len/size type'
            if why:
                o['tdescr'] = {'k': 'bad', 'why': why}
            else:
                per = int(np.prod(cfg.tail)) if cfg.tail else 1
                sz = d['size']
                o['tdescr'] = {'k': 'ok', 'len': d['len'],
                               'size': (sz // (per * B)) if sz % (per * B) == 0 else GARBAGE}
        rp = os.path.join(self.path, disk.README)
        if not os.path.isfile(rp):
            o['treadme'] = {'k': 'absent'}
            o['treadme_bytes'] = None
        else:
            rb = open(rp, 'rb').read()
            o['treadme_bytes'] = rb
            st = disk.ragged_readme_stamp(rb)
            if st is None:
                o['treadme'] = {'k': 'torn'}
            elif st['numtype'] != cfg.numtype or st['ndim'] != len(cfg.tail) + 1:
                o['treadme'] = {'k': 'bad', 'why': st}
            else:
                o['treadme'] = {'k': 'ok', 'n': st['n'],
                                'listed': tuple((a, b // B if b % B == 0 else GARBAGE) for a, b in st['listed'])}
        # independent reader: subarray k = values[start_k:end_k]
        o['indep'] = None
        if o['irows'] is not None and o['vrows'] is not None and 'irows_real' in o:
            rr, _ = v.rows_raw(cfg.rowbytes)
            subs = []
            for (s, e) in o['irows_real']:
                if 0 <= s <= e <= len(rr):
                    subs.append(rc.decode_blocks(rr[s:e]))
                else:
                    subs.append((GARBAGE,))
            o['indep'] = tuple(subs)
        # live handle
        o['live'] = self._handle_view(self.ra, reads)
        # fresh handle
        try:
            fr = self.darr.RaggedArray(self.path)
            o['fresh'] = self._handle_view(fr, reads)
            try:
                from darr.raggedarray import readcodetxt as rtxt
                from darr.array import readcodetxt as atxt
                o['fresh']['treadme_regen'] = rtxt(fr).encode('utf-8')
                o['fresh']['vreadme_regen'] = atxt(self.darr.Array(os.path.join(self.path, 'values'))).encode('utf-8')
                o['fresh']['ireadme_regen'] = atxt(self.darr.Array(os.path.join(self.path, 'indices'))).encode('utf-8')
            except Exception as e:
                o['fresh']['readme_error'] = repr(e)
        except Exception as e:
            o['fresh'] = {'raises': type(e).__name__}
        return o

    def _readme_stamp(self, d, numtype, byteorder, tail, itemsize, B):
        if d.readme is None:
            return {'k': 'absent'}
        st = disk.readme_stamp(d.readme)
        if st is None:
            return {'k': 'torn'}
        if st['numtype'] != numtype or st['shape'][1:] != tuple(tail) or \
                (byteorder is not None and st['byteorder'] != byteorder and itemsize > 1):
            return {'k': 'bad', 'why': st}
        n = st['shape'][0]
        return {'k': 'ok', 'len': n // B if n % B == 0 else GARBAGE}

    def _handle_view(self, ra, reads):
        h = {}
        try:
            h['mode'] = ra.accessmode
            n = len(ra)
            h['len'] = n
            h['narrays'] = ra.narrays
            h['atom'] = tuple(ra.atom)
            h['dtype'] = ra.dtype.str
            h['size'] = ra.size
            subs = []
            for k in range(n):
                a = ra[k]
                subs.append(self._decode_item(a))
                if a.dtype.str != self.cfg.dtype.str or a.shape[1:] != self.cfg.tail:
                    h['subdtype_bad'] = (k, a.dtype.str, a.shape)
            h['subs'] = tuple(subs)
            if reads:
                h['reads'] = self._reads(ra, n, subs)
        except Exception as e:
            h['error'] = '%s: %s' % (type(e).__name__, e)
        return h

    def _reads(self, ra, n, subs):
        """ra[k] for every k around the valid range, non-integer indices,
        iter_arrays over a sample of (start, end, step); compared with the
        TLC-evaluated tables of spec/RaggedObs.tla"""
        bad = []
        if n > 3:
            return {'bad': bad, 'checked': 0}
        iters, gets, _, _ = obs_tables(3)
        checked = 0
        for row in gets.get(n, []):
            k = row['k']
            try:
                got = self._decode_item(ra[k])
                exp = subs[row['res']] if row['res'] != INDEX_ERR else 'IndexError'
            except IndexError:
                got = 'IndexError'
                exp = subs[row['res']] if row['res'] != INDEX_ERR else 'IndexError'
            except Exception as e:
                got = type(e).__name__
                exp = subs[row['res']] if row['res'] != INDEX_ERR else 'IndexError'
            checked += 1
            if got != exp:
                bad.append(('ra[%d]' % k, exp, got))
        for k in (np.int64(0), np.uint8(0)) if n > 0 else ():
            try:
                if self._decode_item(ra[k]) != subs[0]:
                    bad.append(('ra[np.int]', subs[0], 'different'))
            except Exception as e:
                bad.append(('ra[%r]' % k, subs[0], type(e).__name__))
        for k in (1.0, '0', None, slice(0, 1), (0,)):
            try:
                ra[k]
                bad.append(('ra[%r]' % (k,), 'TypeError', 'no error'))
            except TypeError:
                pass
            except Exception as e:
                bad.append(('ra[%r]' % (k,), 'TypeError', type(e).__name__))
            checked += 1
        rows = iters.get(n, [])
        sample = self.rnd.sample(rows, min(10, len(rows)))
        for row in sample:
            kw = {'startindex': row['s'], 'stepsize': row['st']}
            kw['endindex'] = None if row['e'] == NONE_V else row['e']
            exp = 'IndexError' if row['res'] == [INDEX_ERR] else tuple(subs[p] for p in row['res'])
            try:
                got = tuple(self._decode_item(x) for x in ra.iter_arrays(**kw))
            except IndexError:
                got = 'IndexError'
            except Exception as e:
                got = type(e).__name__
            checked += 1
            if got != exp:
                bad.append(('iter_arrays(%s)' % kw, exp, got))
        try:
            if tuple(self._decode_item(x) for x in ra.iter_arrays()) != tuple(subs):
                bad.append(('iter_arrays()', subs, 'different'))
        except Exception as e:
            bad.append(('iter_arrays()', subs, type(e).__name__))
        return {'bad': bad[:5], 'checked': checked}


# ------------------------------------------------------------------ comparison
def expected_view(st):
    e = dict(st)
    e['ref'] = tuple(tuple(x) for x in st['ref'])
    e['irows'] = tuple(tuple(x) for x in st['irows'])
    e['vrows'] = tuple(st['vrows'])
    if st['treadme'].get('k') == 'ok':
        e['treadme'] = {'k': 'ok', 'n': st['treadme']['n'],
                        'listed': tuple(tuple(x) for x in st['treadme']['listed'])}
        e['treadme_inctx'] = bool(st['treadme'].get('inctx'))
    return e


def flat(ref):
    return tuple(x for it in ref for x in it)


def compare(prop, exp, obs, obs_out, sess=None):
    mm = []
    cfg = sess.cfg
    if not obs.get('exists'):
        return [('directory', 'exists', 'missing')]
    live, fresh = obs['live'], obs['fresh']
    ref = exp['ref']
    if prop == 'C04':
        if exp['mode'] == 'r+' and not out_agrees(exp['out'], obs_out, strict=False):
            mm.append(('out', exp['out'], obs_out))     # read-only refusals are C11's business
        for nm, h in (('live', live), ('fresh', fresh)):
            if nm == 'live' and exp.get('uctx', 'no') != 'no':
                # inside a user context the live handle reads through maps opened for an earlier length
                # (not covered by C04's histories); its cached length must still be the current one
                if 'len' in h and h['len'] != len(ref):
                    mm.append(('live len inside a context', len(ref), h['len']))
                continue
            if 'raises' in h:
                mm.append((nm + ' open', ref, 'raises ' + h['raises']))
                continue
            if 'error' in h:
                mm.append((nm + ' handle', ref, h['error']))
                continue
            if h['subs'] != ref:
                mm.append((nm + ' subarrays', ref, h['subs']))
            if h['len'] != len(ref) or h['narrays'] != len(ref):
                mm.append((nm + ' len/narrays', len(ref), (h['len'], h['narrays'])))
            per = int(np.prod(cfg.tail)) if cfg.tail else 1
            if h['atom'] != cfg.tail or h['dtype'] != cfg.dtype.str or \
                    h['size'] != len(flat(ref)) * per * sess.rc.block:
                mm.append((nm + ' atom/dtype/size', (cfg.tail, cfg.dtype.str, len(flat(ref)) * per * sess.rc.block),
                           (h['atom'], h['dtype'], h['size'])))
            if 'subdtype_bad' in h:
                mm.append((nm + ' subarray dtype/shape', cfg.dtype.str, h['subdtype_bad']))
            if h.get('reads', {}).get('bad'):
                mm.append((nm + ' getitem/iter_arrays', 'as spec/RaggedObs.tla', h['reads']['bad']))
        if live.get('mode') != exp['mode']:
            mm.append(('accessmode', exp['mode'], live.get('mode')))
        if obs['idescr'].get('k') == 'bad' and 'index type' in str(obs['idescr'].get('why')):
            mm.append(('stored index type', sess.rc.indextype, obs['idescr']['why']))
    elif prop in ('C05', 'C10'):
        if prop == 'C10' and exp['out'] != 'ok' and obs_out == 'ok':
            mm.append(('out', exp['out'], obs_out))
        if obs['vdescr'] != {'k': 'ok', 'len': exp['vdescr']['len']}:
            mm.append(('values/arraydescription.json', exp['vdescr'], obs['vdescr']))
        if obs['idescr'] != {'k': 'ok', 'len': exp['idescr']['len']}:
            mm.append(('indices/arraydescription.json', exp['idescr'], obs['idescr']))
        if obs['vrows'] != exp['vrows'] or obs['vtail_bytes'] != 0:
            mm.append(('values rows/tail', (exp['vrows'], 0), (obs['vrows'], obs['vtail_bytes'])))
        if obs['irows'] != exp['irows'] or obs['itail_bytes'] != 0:
            mm.append(('index rows/tail', (exp['irows'], 0), (obs['irows'], obs['itail_bytes'])))
        if obs['tdescr'] != exp['tdescr']:
            mm.append(('top arraydescription.json', exp['tdescr'], obs['tdescr']))
        if obs['indep'] != ref:
            mm.append(('subarrays read from the files alone', ref, obs['indep']))
        if obs['vreadme']['k'] == 'absent' or obs['ireadme']['k'] == 'absent':
            mm.append(('sub-array README', 'present', 'absent'))
        if obs['irows'] is not None and obs['vrows'] is not None:
            ir = obs['irows']
            okc = (not ir or ir[0][0] == 0) and all(s <= e for s, e in ir) and \
                all(ir[k][0] == ir[k - 1][1] for k in range(1, len(ir))) and \
                ((ir[-1][1] if ir else 0) == len(obs['vrows']))
            if not okc:
                mm.append(('index contiguity', 'contiguous, last end = N', ir))
        if prop == 'C10':
            for nm, h in (('live', live), ('fresh', fresh)):
                if nm == 'live' and exp.get('uctx', 'no') != 'no':
                    continue
                if 'raises' in h:
                    mm.append((nm + ' open', ref, 'raises ' + h['raises']))
                elif 'error' in h:
                    mm.append((nm + ' handle', ref, h['error']))
                elif h['subs'] != ref:
                    mm.append((nm + ' subarrays', ref, h['subs']))
    elif prop == 'C08':
        if obs['treadme'] != exp['treadme']:
            mm.append(('README stamp', exp['treadme'], obs['treadme']))
        if obs['vreadme'] != {'k': 'ok', 'len': exp['vreadme']['len']} if exp['vreadme'].get('k') == 'ok' else False:
            mm.append(('values/README stamp', exp['vreadme'], obs['vreadme']))
        if obs['ireadme'] != {'k': 'ok', 'len': exp['ireadme']['len']} if exp['ireadme'].get('k') == 'ok' else False:
            mm.append(('indices/README stamp', exp['ireadme'], obs['ireadme']))
        if 'raises' not in fresh:
            for key, nm in (('treadme', 'README'), ('vreadme', 'values/README'), ('ireadme', 'indices/README')):
                if key == 'treadme' and exp.get('treadme_inctx'):
                    continue     # written through maps a user context kept open: the stamp above says what it lists
                if key + '_regen' in fresh and obs[key + '_bytes'] != fresh[key + '_regen']:
                    mm.append((nm + ' bytes vs regenerated', 'equal', _firstdiff(obs[key + '_bytes'], fresh[key + '_regen'])))
            if 'readme_error' in fresh:
                mm.append(('README regeneration', 'works', fresh['readme_error']))
    else:
        raise ValueError(prop)
    return mm
