"""Parser for TLA+ values as printed by TLC (states in traces, dot dumps,
simulation files).  Standard library only.

Mapping:  <<a, b>> -> tuple;  {a, b} -> frozenset (elements frozen);
[a |-> 1] and (k :> v @@ ...) -> dict;  "s" -> str;  12 -> int;
TRUE/FALSE -> bool;  bare identifiers (model values) -> MV(name);
a..b -> frozenset(range).
The empty function / record / sequence all print as <<>> and parse as ().
"""
import re


class MV(str):
    """model value"""
    def __repr__(self):
        return 'MV(%s)' % str.__repr__(self)


class ParseError(Exception):
    pass


def freeze(v):
    if isinstance(v, dict):
        return ('#map', tuple(sorted(((freeze(k), freeze(x)) for k, x in v.items()), key=repr)))
    if isinstance(v, (tuple, list)):
        return tuple(freeze(x) for x in v)
    if isinstance(v, (set, frozenset)):
        return frozenset(freeze(x) for x in v)
    return v


_tok = re.compile(r'''\s*(?:
    (?P<int>-?\d+) |
    (?P<str>"(?:[^"\\]|\\.)*") |
    (?P<op><<|>>|\|->|:>|@@|\.\.|/\\|[\[\]{}(),]) |
    (?P<id>[A-Za-z_][A-Za-z0-9_!]*)
  )''', re.X)


class _P:
    def __init__(self, text, pos=0):
        self.t = text
        self.i = pos
        self.peeked = None

    def next(self):
        if self.peeked is not None:
            r = self.peeked
            self.peeked = None
            return r
        self.before = self.i
        m = _tok.match(self.t, self.i)
        if not m:
            if self.t[self.i:].strip() == '':
                return ('eof', None)
            raise ParseError('bad token at %r' % self.t[self.i:self.i + 40])
        self.i = m.end()
        k = m.lastgroup
        return (k, m.group(k))

    def peek(self):
        if self.peeked is None:
            self.peeked = self.next()
        return self.peeked

    def pos(self):
        return self.before if self.peeked is not None else self.i

    def expect(self, op):
        k, v = self.next()
        if v != op:
            raise ParseError('expected %r got %r near %r' % (op, v, self.t[max(0, self.i - 30):self.i + 30]))

    def value(self):
        v = self.atom()
        k, t = self.peek()
        if t == '..':
            self.next()
            hi = self.atom()
            return frozenset(range(v, hi + 1))
        return v

    def atom(self):
        k, v = self.next()
        if k == 'int':
            return int(v)
        if k == 'str':
            return _unescape(v[1:-1])
        if k == 'id':
            if v == 'TRUE':
                return True
            if v == 'FALSE':
                return False
            return MV(v)
        if v == '<<':
            out = []
            if self.peek()[1] == '>>':
                self.next()
                return ()
            while True:
                out.append(self.value())
                k, t = self.next()
                if t == '>>':
                    return tuple(out)
                if t != ',':
                    raise ParseError('bad tuple sep %r' % t)
        if v == '{':
            out = []
            if self.peek()[1] == '}':
                self.next()
                return frozenset()
            while True:
                out.append(freeze(self.value()))
                k, t = self.next()
                if t == '}':
                    return frozenset(out)
                if t != ',':
                    raise ParseError('bad set sep %r' % t)
        if v == '[':
            d = {}
            while True:
                k, name = self.next()
                if k != 'id':
                    raise ParseError('bad record field %r' % name)
                self.expect('|->')
                d[str(name)] = self.value()
                k, t = self.next()
                if t == ']':
                    return d
                if t != ',':
                    raise ParseError('bad record sep %r' % t)
        if v == '(':
            d = {}
            while True:
                key = self.value()
                self.expect(':>')
                d[freeze(key)] = self.value()
                k, t = self.next()
                if t == ')':
                    return d
                if t != '@@':
                    raise ParseError('bad function sep %r' % t)
        raise ParseError('unexpected %r' % v)


def _unescape(s):
    return s.replace('\\"', '"').replace('\\\\', '\\').replace('\\n', '\n').replace('\\t', '\t')


def value(text):
    p = _P(text)
    v = p.value()
    if p.next()[0] != 'eof':
        raise ParseError('trailing text in %r' % text[:80])
    return v


_conj = re.compile(r'\s*/\\\s*([A-Za-z_][A-Za-z0-9_]*)\s*=\s*')


def state(text):
    """Parse '/\\ x = v /\\ y = w' into {x: v, y: w}."""
    out = {}
    i = 0
    n = len(text)
    while i < n:
        m = _conj.match(text, i)
        if not m:
            if text[i:].strip() == '':
                break
            # single-variable states print without /\
            m2 = re.match(r'\s*([A-Za-z_][A-Za-z0-9_]*)\s*=\s*', text[i:])
            if not m2:
                raise ParseError('bad state text at %r' % text[i:i + 60])
            name = m2.group(1)
            p = _P(text, i + m2.end())
            out[name] = p.value()
            i = p.pos()
            continue
        p = _P(text, m.end())
        out[m.group(1)] = p.value()
        i = p.pos()
    return out


_label = re.compile(r'^([A-Za-z_][A-Za-z0-9_]*)(?:\((.*)\))?$', re.S)


def label(text):
    """'App(<<1, 2>>, 3)' -> ('App', [ (1,2), 3 ])"""
    m = _label.match(text.strip())
    if not m:
        raise ParseError('bad label %r' % text)
    name, args = m.group(1), m.group(2)
    if args is None or args.strip() == '':
        return name, []
    p = _P(args)
    out = []
    while True:
        out.append(p.value())
        k, t = p.next()
        if k == 'eof':
            break
        if t != ',':
            raise ParseError('bad label args %r' % text)
    return name, out


_node = re.compile(r'^(-?\d+) \[label="((?:[^"\\]|\\.)*)"')
_edge = re.compile(r'^(-?\d+) -> (-?\d+) \[label="((?:[^"\\]|\\.)*)"')


def _dotunescape(s):
    return s.replace('\\n', '\n').replace('\\"', '"').replace('\\\\', '\\')


class LazyStates(dict):
    """id -> parsed state; parses the raw TLC text on first access"""

    def __init__(self):
        super().__init__()
        self.raw = {}

    def __missing__(self, k):
        v = state(self.raw[k])
        self[k] = v
        return v

    def __contains__(self, k):
        return k in self.raw

    def __len__(self):
        return len(self.raw)

    def keys(self):
        return self.raw.keys()

    def items(self):
        for k in self.raw:
            yield k, self[k]


class Graph:
    def __init__(self):
        self.nodes = LazyStates()   # id -> state dict (lazy)
        self.init = []       # ids
        self.edges = {}      # src -> list of (name, args, dst)

    def nedges(self):
        return sum(len(v) for v in self.edges.values())


def dot(path):
    g = Graph()
    lcache = {}
    raw = g.nodes.raw
    with open(path) as f:
        for line in f:
            m = _edge.match(line)
            if m:
                lt = m.group(3)
                la = lcache.get(lt)
                if la is None:
                    la = label(_dotunescape(lt))
                    lcache[lt] = la
                g.edges.setdefault(m.group(1), []).append((la[0], la[1], m.group(2)))
                continue
            m = _node.match(line)
            if m:
                nid = m.group(1)
                if nid not in raw:
                    raw[nid] = _dotunescape(m.group(2))
                if 'style = filled' in line:
                    g.init.append(nid)
    return g


_st_hdr = re.compile(r'^State (\d+): <(.*?)>\s*$')


def trace(text):
    """Parse a TLC error trace (text between 'The behavior up to this point'
    and the statistics) into [(label_text, state)]."""
    out = []
    cur = None
    buf = []
    for line in text.splitlines():
        m = _st_hdr.match(line)
        if m:
            if cur is not None:
                out.append((cur, state('\n'.join(buf))))
            cur = m.group(2)
            buf = []
        elif cur is not None:
            if line.strip() == '' or line.startswith('/\\') or line.startswith(' ') or re.match(r'^[A-Za-z_]\w* = ', line):
                buf.append(line)
            else:
                out.append((cur, state('\n'.join(buf))))
                cur = None
                buf = []
    if cur is not None:
        out.append((cur, state('\n'.join(buf))))
    return out


if __name__ == '__main__':
    import sys
    g = dot(sys.argv[1])
    print(len(g.nodes), g.nedges(), g.init)
