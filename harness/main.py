"""CLI: check <ID> [--tier quick|thorough] [--replay file]"""
import argparse
import importlib
import os
import sys

from .common import main_wrapper, Machinery


def main():
    ap = argparse.ArgumentParser()
    ap.add_argument('prop')
    ap.add_argument('--tier', default=os.environ.get('VERIF_TIER', 'quick'))
    ap.add_argument('--replay')
    ap.add_argument('--seed', type=int, default=int(os.environ.get('VERIF_SEED', '0') or 0))
    a = ap.parse_args()
    if a.tier not in ('quick', 'thorough'):
        a.tier = 'quick'
    import darr
    root = os.path.abspath(os.environ.get('VERIF_REPO', '/repo')) + '/'
    if not os.path.abspath(darr.__file__).startswith(root):
        raise Machinery('darr imported from %s, not %s' % (darr.__file__, root))
    mod = importlib.import_module('harness.checks.%s' % a.prop.lower())
    if a.replay:
        return mod.replay(a.replay)
    return mod.run(a.tier, a.seed)


if __name__ == '__main__':
    main_wrapper(main)
