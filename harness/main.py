"""CLI: check <ID> [--tier quick|thorough] [--replay file]"""
import argparse
import importlib
import os
import sys

from .common import main_wrapper, Machinery


def main():
    ap = argparse.ArgumentParser()
    ap.add_argument('prop')
    ap.add_argument('--tier', default=os.environ.get('VERIF_TIER', 'quick'))
    ap.add_argument('--replay')
    ap.add_argument('--seed', type=int, default=int(os.environ.get('VERIF_SEED', '0') or 0))
    a = ap.parse_args()
    if a.tier not in ('quick', 'thorough'):
        a.tier = 'quick'
    import darr
    root = os.path.abspath(os.environ.get('VERIF_REPO', '/repo')) + '/'
    if not os.path.abspath(darr.__file__).startswith(root):
        raise Machinery('darr imported from %s, not %s' % (darr.__file__, root))
    mod = importlib.import_module('harness.checks.%s' % a.prop.lower())
    if a.replay:
        # a replay file names the signature of a violation, the tier and the seed of the run that found it; the
        # checks are deterministic in (tree, tier, seed): the run is repeated and the signature looked for
        import json
        from . import common
        rep = json.load(open(a.replay))
        os.environ['VERIF_REPLAYING'] = '1'
        mod.run(rep.get('tier', a.tier), int(rep.get('seed', a.seed)))
        if rep.get('signature') in common.LAST['signatures']:
            print('REPLAY: reproduced %s' % rep['signature'])
            return 1
        print('REPLAY: not reproduced on this tree: %s' % rep.get('signature'))
        return 0
    return mod.run(a.tier, a.seed)


if __name__ == '__main__':
    main_wrapper(main)
