"""Verdicts, evidence, known findings, replay files.  Standard library only."""
import json
import os
import re
import sys
import time
import traceback

VERIF = os.path.dirname(os.path.dirname(os.path.abspath(__file__)))
EVID = os.path.join(VERIF, 'evidence')
REPLAYS = os.path.join(VERIF, 'replays')
FINDINGS = os.path.join(VERIF, 'KNOWN_FINDINGS.jsonl')


LAST = {'signatures': []}


class Machinery(Exception):
    """the machinery failed (exit 2); never reported as a violation"""


def load_findings():
    out = []
    if os.path.exists(FINDINGS):
        with open(FINDINGS) as f:
            for line in f:
                line = line.strip()
                if line and not line.startswith('#'):
                    out.append(json.loads(line))
    return out


def jsonable(v):
    if isinstance(v, dict):
        return {str(k): jsonable(x) for k, x in v.items()}
    if isinstance(v, (list, tuple)):
        return [jsonable(x) for x in v]
    if isinstance(v, (set, frozenset)):
        return sorted((jsonable(x) for x in v), key=repr)
    if isinstance(v, bytes):
        return v.hex() if len(v) <= 64 else v[:64].hex() + '...'
    if isinstance(v, (str, int, float, bool)) or v is None:
        return v
    try:
        import numpy as np
        if isinstance(v, np.generic):
            return v.item() if v.dtype.kind != 'c' else str(v)
        if isinstance(v, np.ndarray):
            return {'ndarray': str(v.dtype), 'shape': list(v.shape)}
    except Exception:
        pass
    return repr(v)


class Run:
    """one check run: collects violations, coverage, writes evidence"""

    def __init__(self, prop, tier, seed, level):
        self.prop, self.tier, self.seed, self.level = prop, tier, seed, level
        self.t0 = time.time()
        self.violations = []       # (signature, detail, replay)
        self.known_hits = {}       # signature -> count
        self.cov = {'samples': []}
        self.assumptions = []
        self.findings = [f for f in load_findings() if f.get('property') == prop]
        self.nreplay = 0
        self.max_report = 5

    # -- coverage helpers
    def add(self, key, n=1):
        self.cov[key] = self.cov.get(key, 0) + n

    def sample(self, s, cap=6):
        if len(self.cov['samples']) < cap:
            self.cov['samples'].append(jsonable(s))

    def tlc(self, name, r):
        self.add('states', r.distinct)
        self.add('transitions', r.generated)
        inst = self.cov.setdefault('tlc_instances', {})
        inst[name] = {'distinct_states': r.distinct, 'states_generated': r.generated, 'depth': r.depth,
                      'wall_s': round(r.wall_s, 1),
                      'actions_covered': {k: v[1] for k, v in sorted(r.coverage.items()) if v[1] > 0}}

    # -- violations
    def violation(self, signature, detail, replay=None):
        for f in self.findings:
            if f.get('status') == 'open' and re.fullmatch(f['signature'], signature):
                self.known_hits.setdefault(f['signature'], [0, f])[0] += 1
                return False
        self.violations.append((signature, detail, replay))
        return True

    def finish(self):
        wall = time.time() - self.t0
        LAST['signatures'] = sorted({sig for sig, _, _ in self.violations})
        os.makedirs(EVID, exist_ok=True)
        cov = dict(self.cov)
        if not cov.get('samples'):
            cov['samples'] = ['(no sample recorded)']
        ev = {'property_id': self.prop, 'tier': self.tier, 'seed': self.seed, 'level': self.level,
              'coverage': jsonable(cov), 'assumptions': self.assumptions, 'wall_s': round(wall, 2),
              'violations': len(self.violations),
              'known_findings_hit': {k: v[0] for k, v in self.known_hits.items()}}
        if not os.environ.get('VERIF_REPLAYING'):       # a replay is not a coverage run
            with open(os.path.join(EVID, self.prop + '.json'), 'w') as f:
                json.dump(ev, f, indent=1, sort_keys=True)
        for sig, (n, fd) in self.known_hits.items():
            print('KNOWN-FINDING: property=%s %s (%d occurrences; signature %s)' % (self.prop, fd.get('what', ''), n, sig))
        if self.violations:
            os.makedirs(REPLAYS, exist_ok=True)
            shown = 0
            bysig = {}
            for sig, detail, replay in self.violations:
                bysig.setdefault(sig, []).append((detail, replay))
            for sig, items in bysig.items():
                detail, replay = items[0]
                path = os.path.join(REPLAYS, '%s_%d.json' % (self.prop, shown))
                with open(path, 'w') as f:
                    json.dump(jsonable({'property': self.prop, 'signature': sig, 'detail': detail,
                                        'replay': replay, 'seed': self.seed, 'tier': self.tier,
                                        'occurrences': len(items)}), f, indent=1)
                print('VIOLATION property=%s replay=%s' % (self.prop, path))
                print('  signature: %s (%d occurrences)' % (sig, len(items)))
                print('  ' + json.dumps(jsonable(detail))[:1500])
                shown += 1
            return 1
        print('OK property=%s tier=%s wall=%.1fs %s' % (self.prop, self.tier, wall,
              ' '.join('%s=%s' % (k, v) for k, v in cov.items() if isinstance(v, int))))
        return 0


def main_wrapper(fn):
    """run fn(); exit 2 with a message on machinery failure"""
    try:
        rc = fn()
    except Machinery as e:
        print('MACHINERY-FAILURE: %s' % e)
        sys.exit(2)
    except Exception:
        from . import tlc
        traceback.print_exc()
        print('MACHINERY-FAILURE: unexpected exception')
        sys.exit(2)
    sys.exit(rc)
