"""Spec -> code: turn a TLC state graph into executions of the real code.

A *macro-edge* is one public call: an edge leaving a quiescent node followed
by the chain of internal steps up to the next quiescent nodes.  The spec may
be nondeterministic (popitem), so a macro-edge has a set of targets.
"""
import random
from . import tlaparse


class Macro:
    __slots__ = ('src', 'name', 'args', 'dsts', 'steps')

    def __init__(self, src, name, args, dsts, steps):
        self.src, self.name, self.args, self.dsts, self.steps = src, name, args, dsts, steps

    def label(self):
        return '%s(%s)' % (self.name, ', '.join(_fmt(a) for a in self.args))


def _fmt(v):
    if isinstance(v, dict):
        return '[' + ', '.join('%s |-> %s' % (k, _fmt(x)) for k, x in v.items()) + ']'
    if isinstance(v, tuple):
        return '<<' + ', '.join(_fmt(x) for x in v) + '>>'
    if isinstance(v, str):
        return '"%s"' % v
    return str(v)


class MacroGraph:
    """quiescent nodes (merged modulo the observation variables `forget`),
    and macro-edges between them"""

    def __init__(self, graph, quiescent, forget=('out', 'ret'), maxchain=200):
        self.g = graph
        self.forget = forget
        self.key_of = {}          # node id -> merged key
        self.rep = {}             # key -> representative state (without forgotten vars)
        self.out = {}             # key -> list of Macro
        self.init = []
        self.internal_steps = 0
        marker = 'pc = [op |-> "idle"]'
        qset = {n for n, t in graph.nodes.raw.items() if marker in t}
        qn = [n for n in qset if quiescent(graph.nodes[n])]
        self.qset = qset
        for n in qn:
            s = graph.nodes[n]
            k = tlaparse.freeze({a: b for a, b in s.items() if a not in forget})
            self.key_of[n] = k
            if k not in self.rep:
                self.rep[k] = {a: b for a, b in s.items() if a not in forget}
        seen_src = set()
        for n in qn:
            k = self.key_of[n]
            if k in seen_src:
                continue
            seen_src.add(k)
            macros = []
            for (name, args, dst) in graph.edges.get(n, []):
                ends, steps = self._chase(dst, quiescent, maxchain)
                # targets keep their observation variables (expected out/ret)
                dsts = []
                seen = set()
                for e in ends:
                    f = tlaparse.freeze(graph.nodes[e])
                    if f not in seen:
                        seen.add(f)
                        dsts.append(e)
                macros.append(Macro(k, name, args, dsts, steps))
            self.out[k] = macros
        for n in graph.init:
            if n in self.key_of and self.key_of[n] not in self.init:
                self.init.append(self.key_of[n])

    def _chase(self, node, quiescent, maxchain):
        ends = []
        steps = 0
        stack = [(node, 0)]
        seen = set()
        while stack:
            n, d = stack.pop()
            if n in seen:
                continue
            seen.add(n)
            if n in self.qset:
                ends.append(n)
                continue
            if d > maxchain:
                raise RuntimeError('internal chain too long')
            succ = self.g.edges.get(n, [])
            steps += len(succ)
            for (_, _, m) in succ:
                stack.append((m, d + 1))
        self.internal_steps += steps
        return ends, steps

    def nmacros(self):
        return sum(len(v) for v in self.out.values())

    def all_macros(self):
        for k, ms in self.out.items():
            for m in ms:
                yield m

    def dst_state(self, node):
        return self.g.nodes[node]

    def dst_key(self, node):
        return self.key_of[node]

    def random_path(self, rnd, length, start=None, weight=None):
        k = start if start is not None else rnd.choice(self.init)
        path = []
        for _ in range(length):
            ms = self.out.get(k, [])
            if not ms:
                break
            if weight:
                w = [weight(m) for m in ms]
                m = rnd.choices(ms, weights=w)[0]
            else:
                m = rnd.choice(ms)
            path.append(m)
            if not m.dsts:
                break
            k = self.key_of[rnd.choice(m.dsts)]
        return path

    def paths_upto(self, length, start, limit=None, select=None):
        """all label paths of exactly <= length macro-edges from start (DFS)"""
        out = []

        def rec(k, acc):
            if limit is not None and len(out) >= limit:
                return
            if acc:
                out.append(list(acc))
            if len(acc) == length:
                return
            for m in self.out.get(k, []):
                if select and not select(m):
                    continue
                for d in m.dsts[:1]:
                    acc.append(m)
                    rec(self.key_of[d], acc)
                    acc.pop()
        rec(start, [])
        return out
