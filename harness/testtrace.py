"""Code -> spec on the repository's OWN tests: run darr/tests under the
recording plugin (harness/pytest_darrtrace.py), validate every recorded trace
with TLC against spec/TraceArray.tla."""
import json
import os
import subprocess
import sys
import tempfile

from . import tracecheck
from .common import Machinery

NIDS, NKEYS, NVALS = 400, 6, 60


def record(timeout=1500):
    repo = os.path.abspath(os.environ.get('VERIF_REPO', '/repo'))
    verif = os.path.dirname(os.path.dirname(os.path.abspath(__file__)))
    fd, out = tempfile.mkstemp(prefix='darrtt_', suffix='.ndjson')
    os.close(fd)
    scratch = tempfile.mkdtemp(prefix='darrtt_tmp_')      # whatever the tests leave behind goes with it
    env = dict(os.environ, DARR_TRACE_OUT=out, PYTHONPATH=repo + os.pathsep + verif, PYTHONHASHSEED='0', TMPDIR=scratch)
    try:
        p = subprocess.run([sys.executable, '-W', 'ignore', '-m', 'pytest', '-q', '-p', 'no:cacheprovider',
                            '-p', 'harness.pytest_darrtrace', os.path.join(repo, 'darr')],
                           cwd=repo, env=env, stdout=subprocess.PIPE, stderr=subprocess.STDOUT, text=True, timeout=timeout)
        if not os.path.getsize(out):
            raise Machinery('recording the repository tests produced nothing:\n' + p.stdout[-1500:])
        traces = [json.loads(l) for l in open(out)]
        stats = json.load(open(out + '.stats'))
        stats['pytest_exit'] = p.returncode
        stats['pytest_tail'] = p.stdout.strip().splitlines()[-1] if p.stdout.strip() else ''
        return traces, stats
    finally:
        import shutil
        shutil.rmtree(scratch, ignore_errors=True)
        for f in (out, out + '.stats'):
            if os.path.exists(f):
                os.unlink(f)


def run_repo_tests(run, prop):
    """traces of the repository's tests; a trace TLC cannot explain is a violation of `prop`
    (Match is restricted to the observables of that property)"""
    traces, stats = record()
    focus = prop if prop in ('C02', 'C03', 'C08', 'C09', 'C13') else 'all'
    r, reached = tracecheck.validate(traces, focus, nids=NIDS, nkeys=NKEYS, nvals=NVALS)
    run.cov['repository_tests'] = dict(stats, traces=len(traces), tlc_distinct_states=r.distinct)
    run.add('repository_test_traces_validated_by_tlc', len(traces))
    run.add('repository_test_events', sum(len(t['events']) for t in traces))
    for t, got in zip(traces, reached):
        if got != len(t['events']) + 1:
            k = max(got - 1, 0)
            ev = t['events'][k] if k < len(t['events']) else None
            prev = t['events'][k - 1]['post'] if k >= 1 else t['init']
            run.violation('%s|repotest|%s|%s' % (prop, ev['op'] if ev else 'end', (ev.get('via') or ev.get('kd') or '') if ev else ''),
                          {'test': t['test'], 'explained_events': k, 'state_before': prev, 'unexplained_event': ev},
                          {'kind': 'repotest-trace', 'test': t['test'], 'trace': {'init': t['init'], 'events': t['events'][:k + 1]}})
