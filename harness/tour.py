"""Execute macro-edges and paths of a spec graph against the real code, in
parallel worker processes (fork), and collect mismatches."""
import multiprocessing as mp
import os
import random
import traceback

_CTX = {}


def _skip():
    from .arraymodel import Skip
    return Skip


def _implfail():
    from .arraymodel import ImplFailure
    return ImplFailure


def _edge_job(batch):
    b = _CTX['binding']
    mg = _CTX['mg']
    props = _CTX['props']
    out = []
    for (idx, cfgi) in batch:
        m = _CTX['macros'][idx]
        try:
            out.append(_run_edge(b, mg, m, idx, cfgi, props))
        except _skip() as e:
            out.append({'idx': idx, 'skipped': str(e), 'mism': {}})
        except _implfail() as e:
            out.append({'idx': idx, 'cfg': {}, 'label': m.label(), 'mism': {p: [('create_start_state', str(e)[:400], None)] for p in props}})
        except Exception:
            out.append({'idx': idx, 'error': traceback.format_exc()})
    return out


def _run_edge(b, mg, m, idx, cfgi, props):
    src = mg.rep[m.src]
    sess = b.make_session(cfgi, m)
    res = {'idx': idx, 'cfg': sess.describe(), 'mism': {}, 'label': m.label()}
    try:
        sess.materialize(src)
        pre = b.before(sess, m) if hasattr(b, 'before') else None
        obs_out, exc = sess.step(m.name, m.args)
        obs = sess.observe()
        if not m.dsts:
            res['error'] = 'macro-edge without target'
            return res
        d = _choose(b, mg, m, obs, obs_out, sess, pre, src)
        exp = b.expected_view(mg.dst_state(d))
        for p in props:
            mm = b.compare(p, exp, obs, obs_out, sess=sess, pre=pre, macro=m, src=src)
            if mm:
                res['mism'][p] = mm
        res['out'] = obs_out
        if exc is not None:
            res['exc'] = str(exc)[:300]
    finally:
        sess.close()
    return res


def _choose(b, mg, m, obs, obs_out, sess, pre, src):
    """the spec target that explains the observation best (the spec may be
    nondeterministic); judged on all observables, not only the property's"""
    dsts = list(m.dsts)
    alt = getattr(sess, 'alt', None)
    if alt:
        # the call had a form for which the library may choose between two behaviours (e.g. a NumPy integer
        # where an int is documented): the other macro-edge from the same state is an equally good explanation
        for m2 in mg.out.get(m.src, []):
            if m2.name == alt[0] and list(m2.args) == list(alt[1]):
                dsts += list(m2.dsts)
    if len(dsts) == 1:
        return dsts[0]
    best, bestn = None, None
    for d in dsts:
        exp = b.expected_view(mg.dst_state(d))
        n = 0
        for p in b.ALL:
            n += len(b.compare(p, exp, obs, obs_out, sess=sess, pre=pre, macro=m, src=src))
        if bestn is None or n < bestn:
            best, bestn = d, n
    return best


def edge_tour(binding, mg, props, ncfg, per_edge=1, jobs=None, select=None, seed=0):
    """every macro-edge of mg (optionally filtered) executed per_edge times with
    rotating configurations.  Returns list of result dicts."""
    macros = [m for m in mg.all_macros() if (select is None or select(m))]
    rnd = random.Random(seed)
    work = []
    for i, m in enumerate(macros):
        for r in range(per_edge):
            work.append((i, rnd.randrange(ncfg)))
    _CTX.update(binding=binding, mg=mg, props=props, macros=macros)
    jobs = jobs or min(16, os.cpu_count() or 4)
    batches = [work[i:i + 40] for i in range(0, len(work), 40)]
    results = []
    if jobs == 1 or len(batches) <= 1:
        for bt in batches:
            results.extend(_edge_job(bt))
    else:
        with mp.get_context('fork').Pool(jobs) as pool:
            for r in pool.imap_unordered(_edge_job, batches):
                results.extend(r)
    return macros, results


def _path_job(batch):
    b = _CTX['binding']
    mg = _CTX['mg']
    props = _CTX['props']
    out = []
    for (pi, cfgi) in batch:
        path = _CTX['paths'][pi]
        try:
            out.append(_run_path(b, mg, path, pi, cfgi, props))
        except _skip() as e:
            out.append({'idx': pi, 'skipped': str(e), 'mism': {}, 'labels': []})
        except _implfail() as e:
            out.append({'idx': pi, 'cfg': {}, 'labels': [], 'steps': 0, 'at': 0,
                        'mism': {p: [('create_start_state', str(e)[:400], None)] for p in props}})
        except Exception:
            out.append({'idx': pi, 'error': traceback.format_exc()})
    return out


def _run_path(b, mg, path, pi, cfgi, props):
    start, macros = path
    sess = b.make_session(cfgi, macros[0] if macros else None, path=macros)
    res = {'idx': pi, 'cfg': sess.describe(), 'mism': {}, 'steps': 0, 'labels': [m.label() for m in macros]}
    try:
        sess.materialize(mg.rep[start])
        cur = start
        for si, m in enumerate(macros):
            if m.src != cur:
                # the path was generated along another nondeterministic branch
                break
            src = mg.rep[m.src]
            pre = b.before(sess, m) if hasattr(b, 'before') else None
            obs_out, exc = sess.step(m.name, m.args)
            obs = sess.observe()
            res['steps'] += 1
            chosen = _choose(b, mg, m, obs, obs_out, sess, pre, src)
            exp = b.expected_view(mg.dst_state(chosen))
            bad = {}
            for p in props:
                mm = b.compare(p, exp, obs, obs_out, sess=sess, pre=pre, macro=m, src=src)
                if mm:
                    bad[p] = mm
            if bad:
                res['mism'] = bad
                res['at'] = si
                res['label'] = m.label()
                res['out'] = obs_out
                if exc is not None:
                    res['exc'] = str(exc)[:300]
                break
            cur = mg.dst_key(chosen)
    finally:
        sess.close()
    return res


def path_tour(binding, mg, props, paths, ncfg, jobs=None, seed=0):
    """paths: list of (start key, [Macro...])"""
    rnd = random.Random(seed + 1)
    work = [(i, rnd.randrange(ncfg)) for i in range(len(paths))]
    _CTX.update(binding=binding, mg=mg, props=props, paths=paths)
    jobs = jobs or min(16, os.cpu_count() or 4)
    batches = [work[i:i + 8] for i in range(0, len(work), 8)]
    results = []
    if jobs == 1 or len(batches) <= 1:
        for bt in batches:
            results.extend(_path_job(bt))
    else:
        with mp.get_context('fork').Pool(jobs) as pool:
            for r in pool.imap_unordered(_path_job, batches):
                results.extend(r)
    return results


ASCII_ENV = {'LC_ALL': 'C', 'LANG': 'C', 'PYTHONUTF8': '0', 'PYTHONCOERCECLOCALE': '0'}


def env_path_tour(binding, mg, props, paths, ncfg, env, seed=0, timeout=1200):
    """path_tour in a child interpreter started with the environment `env` (what a process inherits at start-up -
    the default text encoding - cannot be changed in a forked worker).  Returns (info, results)."""
    import pickle
    import subprocess
    import sys
    import tempfile
    import shutil
    d = tempfile.mkdtemp(prefix='darrenv_')
    try:
        job, out = os.path.join(d, 'job.pkl'), os.path.join(d, 'out.pkl')
        with open(job, 'wb') as f:
            pickle.dump((binding, mg, props, paths, ncfg, seed), f)
        e = dict(os.environ)
        e.update(env)
        p = subprocess.run([sys.executable, '-W', 'ignore', '-m', 'harness.envchild', job, out], env=e,
                           stdout=subprocess.PIPE, stderr=subprocess.STDOUT, text=True, timeout=timeout)
        if not os.path.exists(out):
            from .common import Machinery
            raise Machinery('environment child failed: ' + p.stdout[-2000:])
        with open(out, 'rb') as f:
            return pickle.load(f)
    finally:
        shutil.rmtree(d, ignore_errors=True)
