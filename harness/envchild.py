"""Child interpreter for environment-dependent replays: the same TLC-derived
paths, executed in a process started with another environment (locale /
default text encoding, working directory, ...)."""
import pickle
import sys


def main():
    from . import tour
    job, out = sys.argv[1], sys.argv[2]
    with open(job, 'rb') as f:
        binding, mg, props, paths, ncfg, seed = pickle.load(f)
    import locale
    info = {'utf8_mode': sys.flags.utf8_mode, 'encoding': locale.getencoding()}
    res = tour.path_tour(binding, mg, props, paths, ncfg, seed=seed)
    with open(out, 'wb') as f:
        pickle.dump((info, res), f)


if __name__ == '__main__':
    main()
