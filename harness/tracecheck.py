"""Code -> spec: record long random histories of the real darr.Array (large
bounds, all configurations, faults) and let TLC validate them against
spec/TraceArray.tla (= spec/Array.tla's actions) in one batch run."""
import json
import multiprocessing as mp
import os
import random
import re
import shutil
import tempfile
import traceback

from . import tlc
from . import arraymodel as am
from .concretize import Config, pick_configs, GARBAGE
from .common import Machinery

NIDS = 10


class TSess(am.Session):
    def describe(self):
        return self.cfg.as_dict()


def abstract_post(sess, o, out):
    cfg = sess.cfg
    if not o.get('exists'):
        return {'gone': True, 'out': out, 'rows': [], 'tail': 0, 'descr': {'k': 'absent'}, 'readme': {'k': 'absent'},
                'meta': {'k': 'absent'}, 'hlen': 0, 'mode': 'r', 'mmode': 'r', 'fresh': [-1], 'ctx': False}
    tb = o['tail_bytes']
    tail = 0 if tb == 0 else max(1, min(3, round(4 * tb / cfg.rowbytes)))
    fr = o['fresh']
    return {'gone': False, 'out': out, 'rows': list(o['rows']), 'tail': tail,
            'descr': o['descr'] if o['descr'].get('k') == 'ok' else {'k': str(o['descr'].get('k'))},
            'readme': o['readme'] if o['readme'].get('k') == 'ok' else {'k': str(o['readme'].get('k'))},
            'meta': {'k': 'ok', 'd': o['meta']['d']} if o['meta'].get('k') == 'ok' else {'k': o['meta']['k']},
            'hlen': o['live'].get('hlen', -1), 'mode': o['live'].get('mode', '?'), 'mmode': o['live'].get('mmode', '?'),
            'ctx': bool(getattr(sess, 'ctxs', None)),
            'fresh': [-1] if 'raises' in fr else list(fr['rows'])}


def random_history(args):
    seed, cfgkey, nops, big = args
    rnd = random.Random(seed)
    ctxops = seed % 3 == 0          # a third of the histories also use open_array() contexts
    cfg = Config(*cfgkey[:3], form=cfgkey[3], valset=cfgkey[4], iterform=cfgkey[5], nids=NIDS)
    sess = TSess(cfg, metaset=seed, keyset=seed // 3)
    try:
        n0 = rnd.choice([0, 0, 1, 3, 7])
        rows0 = tuple(rnd.randrange(1, NIDS + 1) for _ in range(n0))
        m0 = rnd.choice([{'k1': 0, 'k2': 0}, {'k1': 1, 'k2': 0}, {'k1': 2, 'k2': 1}])
        mode0 = rnd.choice(['r+', 'r+', 'r'])
        sess.materialize({'ref': rows0, 'refmeta': m0, 'mode': mode0})
        hasmeta = any(m0.values())
        init = {'rows': list(rows0), 'mode': mode0, 'meta': {'k': 'ok', 'd': m0} if hasmeta else {'k': 'absent'}}
        events = []
        for _ in range(nops):
            n = len(sess.a) if sess.a is not None else 0
            kind = rnd.choices(['append', 'iterappend', 'badappend', 'truncate', 'setitem', 'mode', 'reopen', 'meta', 'noniter',
                                'metamode', 'ctx'], weights=[4, 6, 1, 4, 3, 2, 2, 4, 0.3, 1, 1.5 if ctxops else 0])[0]
            inctx = bool(getattr(sess, 'ctxs', None))
            if inctx and kind in ('truncate', 'reopen'):
                kind = 'ctx' if rnd.random() < 0.5 else 'append'     # not modelled inside a context

            def chunk():
                return [rnd.randrange(1, NIDS + 1) for _ in range(rnd.choice([0, 1, 1, 2, 3, 5] if big else [0, 1, 2]))]
            if kind == 'append':
                c = chunk()
                f = {'kind': 'none'}
                if c and rnd.random() < 0.15 and cfg.rowbytes >= 4 and not inctx:
                    f = {'kind': 'write', 'at': 1, 'k': rnd.randrange(len(c)), 'b': rnd.randrange(4)}
                ev = {'op': 'IA_Call', 'cs': [c], 'f': f, 'via': 'append'}
                call = ('IA_Call', [(tuple(c),), f, 'append'])
            elif kind == 'iterappend':
                cs = [chunk() for _ in range(rnd.choice([0, 1, 2, 3, 5] if big else [0, 1, 2]))]
                f = {'kind': 'none'}
                r = rnd.random()
                if r < 0.2 and not inctx:
                    f = {'kind': rnd.choice(['raise', 'shape', 'rank', 'conv']), 'at': len(cs) + 1}
                elif r < 0.35 and cs and cs[-1] and cfg.rowbytes >= 4 and not inctx:
                    f = {'kind': 'write', 'at': len(cs), 'k': rnd.randrange(len(cs[-1])), 'b': rnd.randrange(4)}
                ev = {'op': 'IA_Call', 'cs': cs, 'f': f, 'via': 'iterappend'}
                call = ('IA_Call', [tuple(tuple(c) for c in cs), f, 'iterappend'])
            elif kind == 'noniter':
                ev = {'op': 'IA_Call', 'cs': [], 'f': {'kind': 'none'}, 'via': 'noniter'}
                call = ('IA_Call', [(), {'kind': 'none'}, 'noniter'])
            elif kind == 'badappend' and inctx:
                continue
            elif kind == 'badappend':
                kd = rnd.choice(['shape', 'rank', 'conv'])
                ev = {'op': 'IA_CallBadAppend', 'kd': kd}
                call = ('IA_CallBadAppend', [kd])
            elif kind == 'truncate':
                i = rnd.choice([rnd.randrange(-n - 2, n + 3), rnd.randrange(0, n + 1), am.NONINT if rnd.random() < 0.1 else 0])
                ev = {'op': 'TR_Call', 'i': i}
                call = ('TR_Call', [i])
            elif kind == 'setitem':
                i = rnd.randrange(-n - 1, n + 2)
                rid = rnd.randrange(1, NIDS + 1)
                ev = {'op': 'SetItem', 'i': i, 'id': rid}
                call = ('SetItem', [i, rid])
            elif kind == 'mode':
                m = rnd.choice(['r', 'r+', 'r+', 'w'])
                ev = {'op': 'SetMode', 'm': m}
                call = ('SetMode', [m])
            elif kind == 'reopen':
                m = rnd.choice(['r', 'r+', 'r+'])
                ev = {'op': 'Reopen', 'm': m}
                call = ('Reopen', [m])
            elif kind == 'metamode':
                m = rnd.choice(['r', 'r+'])
                ev = {'op': 'SetMetaMode', 'm': m}
                call = ('SetMetaMode', [m])
            elif kind == 'ctx':
                if inctx:
                    ev = {'op': 'ExitCtx'}
                    call = ('ExitCtx', [])
                else:
                    m = rnd.choice(['default', 'default', 'r', 'r+'])
                    ev = {'op': 'EnterCtx', 'm': m}
                    call = ('EnterCtx', [m])
            else:
                kd = rnd.choice(['update', 'setitem', 'update0', 'updatebad', 'pop', 'popd', 'popitem', 'del', 'updateall'])
                key, v = rnd.choice(['k1', 'k2']), rnd.choice([1, 2])
                if kd in ('update0', 'pop', 'popd', 'popitem', 'del'):
                    v = 1
                if kd in ('update0', 'popitem', 'updateall'):
                    key = 'k1'
                ev = {'op': 'M_Call', 'kd': kd, 'key': key, 'v': v}
                call = ('M_Call', [kd, key, v])
            try:
                out, exc = sess.step(*call)
            except am.Skip:
                continue
            if getattr(sess, 'alt', None) and out == 'TypeError' and ev['op'] == 'TR_Call':
                ev['i'] = am.NONINT      # a NumPy integer was refused like any non-integer
            o = sess.observe()
            if GARBAGE in (o.get('rows') or ()):
                pass
            ev['out'] = out if not out.startswith('Raises') else 'Raises'
            ev['post'] = abstract_post(sess, o, ev['out'])
            events.append(ev)
        return {'init': init, 'events': events, 'cfg': cfg.as_dict(), 'seed': seed}
    except am.ImplFailure as e:
        return {'implfail': str(e)[:400], 'cfg': cfg.as_dict(), 'seed': seed}
    except Exception:
        return {'error': traceback.format_exc()}
    finally:
        sess.close()


CFG = '''SPECIFICATION TraceSpec
CONSTANTS
 RowIds <- c_RowIds
 MaxRows = 100000
 RowBytes = 4
 MaxChunkLen = 2
 MaxChunks = 2
 TruncArgs <- c_Ints
 SetIdx <- c_Ints
 Keys <- c_Keys
 Vals <- c_Vals
 Ops <- c_Ops
 Faults = TRUE
 Crashes = FALSE
 InitLens <- c_Zero
 InitModes <- c_Modes
 InitMetas <- c_Zero
 Focus <- c_Focus
CONSTRAINT Constraint
POSTCONDITION Post
'''
MOD = '''---- MODULE MC_TraceArray ----
EXTENDS TraceArray
c_RowIds == 1..%d
c_Ints == -100000..100000
c_Keys == {%s}
c_Vals == 1..%d
c_Ops == {"append", "truncate", "setitem", "mode", "reopen", "meta", "delete", "metamode", "ctx"}
c_Zero == {0}
c_Modes == {"r", "r+"}
c_Focus == "%s"
====
'''


def validate(traces, focus='all', timeout=1800, nids=NIDS, nkeys=2, nvals=2):
    """returns (TLC result, list of furthest explained positions per trace)"""
    wd = tlc.workdir()
    tf = os.path.join(wd, 'traces.ndjson')
    with open(tf, 'w') as f:
        for t in traces:
            f.write(json.dumps({'init': t['init'], 'events': t['events']}) + '\n')
    with open(os.path.join(wd, 'MC_TraceArray.tla'), 'w') as f:
        f.write(MOD % (nids, ', '.join('"k%d"' % i for i in range(1, nkeys + 1)), nvals, focus))
    r = tlc.run('MC_TraceArray', CFG, wd=wd, workers=1, coverage=False, env={'TRACES': tf}, timeout=timeout, heap='8g')
    if r.errors:
        raise tlc.TlcError('trace validation failed to run: %s\n%s' % (r.errors[:2], r.out[-2000:]))
    m = re.search(r'<<\s*"TRACEREPORT",\s*<<([\d,\s]*)>>\s*>>', r.out, re.S)
    if not m:
        raise tlc.TlcError('no TRACEREPORT in TLC output:\n' + r.out[-2000:])
    reached = [int(x) for x in m.group(1).split(',') if x.strip()]
    return r, reached


def run_random(run, prop, ntraces, nops, seed, big=True):
    configs = pick_configs(40, seed, True)
    jobs = [(seed * 100003 + i, configs[i % len(configs)].key(), nops, big) for i in range(ntraces)]
    with mp.get_context('fork').Pool(16) as pool:
        traces = pool.map(random_history, jobs, chunksize=2)
    for t in traces:
        if 'error' in t:
            raise Machinery('trace recorder failed: ' + t['error'])
    for t in [t for t in traces if 'implfail' in t]:
        run.violation('%s|trace|create_start_state' % prop, {'failure': t['implfail'], 'config': t['cfg']},
                      {'kind': 'trace-start', 'seed': t['seed'], 'config': t['cfg']})
    traces = [t for t in traces if 'implfail' not in t]
    focus = prop if prop in ('C02', 'C03', 'C08', 'C09', 'C13') else 'all'
    r, reached = validate(traces, focus)
    # the binding must be real: a corrupted record has to be rejected where it was corrupted
    import copy
    # (control on a trace that was accepted in full, so that the rejection is due to the corruption)
    probe = copy.deepcopy([t for t, got in zip(traces, reached)
                           if len(t['events']) >= 3 and got == len(t['events']) + 1][:1])
    if probe:
        k = len(probe[0]['events']) // 2
        post = probe[0]['events'][k]['post']
        if focus in ('C08',):
            post['readme'] = {'k': 'ok', 'len': post['hlen'] + 1, 'hasmeta': False}
        elif focus in ('C13',):
            post['meta'] = {'k': 'ok', 'd': {'k1': 2, 'k2': 2}} if post['meta'].get('d') != {'k1': 2, 'k2': 2} else {'k': 'absent'}
        else:
            post['rows'] = post['rows'] + [1]
        _, rr = validate(probe, focus)
        if rr[0] != k + 1:
            raise Machinery('trace validation is vacuous: a corrupted record at event %d was explained up to %d' % (k + 1, rr[0]))
        run.add('corrupted_trace_rejected_at_the_corrupted_event')
    run.add('states', r.distinct)
    run.add('transitions', r.generated)
    inst = run.cov.setdefault('tlc_instances', {})
    inst['TraceArray'] = {'distinct_states': r.distinct, 'states_generated': r.generated, 'wall_s': round(r.wall_s, 1),
                          'traces': len(traces), 'events': sum(len(t['events']) for t in traces)}
    nev = 0
    for t, got in zip(traces, reached):
        nev += len(t['events'])
        run.add('recorded_traces_validated_by_tlc')
        if got != len(t['events']) + 1:
            k = max(got - 1, 0)            # events 1..k-1 explained; event k is the first that is not
            ev = t['events'][k] if k < len(t['events']) else None
            prev = t['events'][k - 1]['post'] if k >= 1 else t['init']
            sig = '%s|trace|%s|%s' % (prop, ev['op'] if ev else 'end', ev.get('via') or ev.get('kd') or '' if ev else '')
            run.violation(sig, {'config': t['cfg'], 'seed': t['seed'], 'explained_events': k,
                                'state_before': prev, 'unexplained_event': ev},
                          {'kind': 'trace', 'trace': {'init': t['init'], 'events': t['events'][:k + 1]}, 'config': t['cfg']})
    run.add('recorded_events', nev)
    run.add('traces_validated_against_impl', len(traces))
    if traces:
        run.sample({'recorded_trace_head': traces[0]['events'][:2], 'config': traces[0]['cfg']})
