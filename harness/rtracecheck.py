"""Code -> spec for RaggedArray: long random histories recorded from the real
code, validated by TLC against spec/TraceRagged.tla."""
import copy
import json
import multiprocessing as mp
import os
import random
import re
import traceback

from . import tlc
from . import raggedmodel as rm
from . import arraymodel as am
from .common import Machinery

NIDS = 4


def abstract_post(o, out):
    def d(x):
        return x if x.get('k') == 'ok' else {'k': str(x.get('k'))}
    fr = o['fresh']
    tr = o['treadme']
    if tr.get('k') == 'ok':
        tr = {'k': 'ok', 'n': tr['n'], 'listed': [list(x) for x in tr['listed']]}
    else:
        tr = {'k': str(tr.get('k'))}
    return {'out': out, 'mode': o['live'].get('mode', '?'), 'len': o['live'].get('len', -1),
            'vrows': list(o['vrows'] or []), 'vtail': 1 if o['vtail_bytes'] else 0, 'vdescr': d(o['vdescr']),
            'vreadme': d(o['vreadme']), 'irows': [list(x) for x in (o['irows'] or [])], 'itail': 1 if o['itail_bytes'] else 0,
            'idescr': d(o['idescr']), 'ireadme': d(o['ireadme']), 'tdescr': d(o['tdescr']), 'treadme': tr,
            'fresh': [[-1]] if ('raises' in fr or 'error' in fr) else [list(x) for x in fr['subs']]}


def random_history(args):
    seed, ci, nops = args
    rnd = random.Random(seed)
    base = rm.pick_rconfigs(40, seed // 1000)[ci % 40]
    rc = rm.RConfig(base.v.numtype, base.v.byteorder, base.v.tail, base.indextype, base.v.form, base.v.valset, 1, seed)
    sess = rm.Session(rc)
    try:
        def item():
            return [rnd.randrange(1, NIDS + 1) for _ in range(rnd.choice([0, 0, 1, 2, 3]))]
        ref0 = tuple(tuple(item()) for _ in range(rnd.choice([0, 0, 1, 2, 4, 7])))
        mode0 = rnd.choice(['r+', 'r+', 'r'])
        sess.materialize({'ref': ref0, 'mode': mode0})
        init = {'ref': [list(x) for x in ref0], 'mode': mode0}
        events = []
        for _ in range(nops):
            n = len(sess.ra)
            kind = rnd.choices(['append', 'iterappend', 'badappend', 'truncate', 'mode', 'reopen'], weights=[5, 6, 1, 4, 2, 2])[0]
            if kind == 'append':
                c = item()
                f = {'kind': 'none'}
                if c and rnd.random() < 0.15:
                    f = {'kind': 'vwrite', 'at': 1, 'k': rnd.randrange(len(c)), 'b': rnd.randrange(2)}
                ev = {'op': 'RA_Call', 'cs': [c], 'f': f, 'via': 'append'}
                call = ('RA_Call', [(tuple(c),), f, 'append'])
            elif kind == 'iterappend':
                cs = [item() for _ in range(rnd.choice([0, 1, 2, 3, 4]))]
                f = {'kind': 'none'}
                r = rnd.random()
                if r < 0.2:
                    f = {'kind': rnd.choice(['raise', 'atom', 'rank', 'conv']), 'at': len(cs) + 1}
                elif r < 0.3 and cs and cs[-1]:
                    f = {'kind': 'vwrite', 'at': len(cs), 'k': rnd.randrange(len(cs[-1])), 'b': rnd.randrange(2)}
                elif r < 0.36 and cs:
                    f = {'kind': 'iwrite', 'at': len(cs), 'b': rnd.randrange(2)}
                ev = {'op': 'RA_Call', 'cs': cs, 'f': f, 'via': 'iterappend'}
                call = ('RA_Call', [tuple(tuple(c) for c in cs), f, 'iterappend'])
            elif kind == 'badappend':
                kd = rnd.choice(['atom', 'rank', 'conv'])
                ev = {'op': 'RA_CallBadAppend', 'kd': kd}
                call = ('RA_CallBadAppend', [kd])
            elif kind == 'truncate':
                i = rnd.choice([rnd.randrange(-n - 2, n + 3), rnd.randrange(0, n + 1), am.NONINT if rnd.random() < 0.1 else 0])
                ev = {'op': 'RT_Call', 'i': i}
                call = ('RT_Call', [i])
            elif kind == 'mode':
                m = rnd.choice(['r', 'r+', 'r+', 'w'])
                ev = {'op': 'SetMode', 'm': m}
                call = ('SetMode', [m])
            else:
                m = rnd.choice(['r', 'r+', 'r+'])
                ev = {'op': 'Reopen', 'm': m}
                call = ('Reopen', [m])
            try:
                out, exc = sess.step(*call)
            except am.Skip:
                continue
            if getattr(sess, 'alt', None) and out == 'TypeError' and ev['op'] == 'RT_Call':
                ev['i'] = am.NONINT      # a NumPy integer was refused like any non-integer
            o = sess.observe(reads=False)
            ev['out'] = 'ok' if out == 'ok' else 'Raises'
            ev['post'] = abstract_post(o, ev['out'])
            events.append(ev)
        return {'init': init, 'events': events, 'cfg': rc.as_dict(), 'seed': seed}
    except Exception:
        return {'error': traceback.format_exc()}
    finally:
        sess.close()


CFG = '''SPECIFICATION TraceSpec
CONSTANTS
 RowIds <- c_RowIds
 MaxSub = 100000
 MaxItemLen = 3
 MaxItems = 4
 TruncArgs <- c_Ints
 Ops <- c_Ops
 Faults = TRUE
 Crashes = FALSE
 InitRefs <- c_Zero
 InitModes <- c_Modes
 ListFirst = 5
 IdxMax = 1000000
 Focus <- c_Focus
CONSTRAINT Constraint
POSTCONDITION Post
'''
MOD = '''---- MODULE MC_TraceRagged ----
EXTENDS TraceRagged
c_RowIds == 1..%d
c_Ints == -100000..100000
c_Ops == {"append", "truncate", "mode", "reopen"}
c_Zero == {<<>>}
c_Modes == {"r", "r+"}
c_Focus == "%s"
====
'''


def validate(traces, focus='all', timeout=1800):
    wd = tlc.workdir()
    tf = os.path.join(wd, 'rtraces.ndjson')
    with open(tf, 'w') as f:
        for t in traces:
            f.write(json.dumps({'init': t['init'], 'events': t['events']}) + '\n')
    with open(os.path.join(wd, 'MC_TraceRagged.tla'), 'w') as f:
        f.write(MOD % (NIDS, focus))
    r = tlc.run('MC_TraceRagged', CFG, wd=wd, workers=1, coverage=False, env={'TRACES': tf}, timeout=timeout, heap='8g')
    if r.errors:
        raise tlc.TlcError('ragged trace validation failed to run: %s\n%s' % (r.errors[:2], r.out[-2000:]))
    m = re.search(r'<<\s*"TRACEREPORT",\s*<<([\d,\s]*)>>\s*>>', r.out, re.S)
    if not m:
        raise tlc.TlcError('no TRACEREPORT in TLC output:\n' + r.out[-2000:])
    return r, [int(x) for x in m.group(1).split(',') if x.strip()]


def run_random(run, prop, ntraces, nops, seed):
    jobs = [(seed * 100003 + i, i, nops) for i in range(ntraces)]
    with mp.get_context('fork').Pool(16) as pool:
        traces = pool.map(random_history, jobs, chunksize=2)
    for t in traces:
        if 'error' in t:
            raise Machinery('ragged trace recorder failed: ' + t['error'])
    focus = prop if prop in ('C04', 'C05', 'C08', 'C10') else 'all'
    r, reached = validate(traces, focus)
    probe = copy.deepcopy([t for t, got in zip(traces, reached) if len(t['events']) >= 3 and got == len(t['events']) + 1][:1])
    if probe:
        k = len(probe[0]['events']) // 2
        post = probe[0]['events'][k]['post']
        if focus == 'C08':
            post['treadme'] = {'k': 'ok', 'n': post['len'] + 1, 'listed': []}
        elif focus == 'C04':
            post['fresh'] = post['fresh'] + [[1]]
        else:
            post['vrows'] = post['vrows'] + [1]
        _, rr = validate(probe, focus)
        if rr[0] != k + 1:
            raise Machinery('ragged trace validation is vacuous: a corrupted record at event %d was explained up to %d' % (k + 1, rr[0]))
        run.add('corrupted_ragged_trace_rejected_at_the_corrupted_event')
    run.add('states', r.distinct)
    run.add('transitions', r.generated)
    inst = run.cov.setdefault('tlc_instances', {})
    inst['TraceRagged'] = {'distinct_states': r.distinct, 'states_generated': r.generated, 'wall_s': round(r.wall_s, 1),
                           'traces': len(traces), 'events': sum(len(t['events']) for t in traces)}
    for t, got in zip(traces, reached):
        run.add('recorded_ragged_traces_validated_by_tlc')
        if got != len(t['events']) + 1:
            k = max(got - 1, 0)
            ev = t['events'][k] if k < len(t['events']) else None
            prev = t['events'][k - 1]['post'] if k >= 1 else t['init']
            sig = '%s|ragged|trace|%s|%s' % (prop, ev['op'] if ev else 'end', (ev.get('f') or {}).get('kind', '') if ev else '')
            run.violation(sig, {'config': t['cfg'], 'seed': t['seed'], 'explained_events': k, 'state_before': prev,
                                'unexplained_event': ev},
                          {'kind': 'ragged-trace', 'trace': {'init': t['init'], 'events': t['events'][:k + 1]}, 'config': t['cfg']})
    run.add('recorded_ragged_events', sum(len(t['events']) for t in traces))
    run.add('traces_validated_against_impl', len(traces))
