"""Several live handles on one directory: spec/Shared.tla replayed into
darr.Array.  Every state of the TLC graph (also the inconsistent ones) is
materialised - handles opened while the directory had the length they are to
have cached, then the files set to the state's content - and every edge is
executed with the real code."""
import json
import os
import shutil
import tempfile

import numpy as np

from . import tlc, tlaparse, disk, walk
from .arraymodel import tlaval, classify
from .concretize import Config

DEFAULTS = dict(RowIds=[1, 2], MaxRows=4, Handles=[1, 2], AppendChunks=[(1,), (2, 1)], TruncArgs=[0, 1, 2, -1],
                SetIdx=[0, -1, 2], InitLens=[0, 2], Modes2=['r', 'r+'])
INVS = ['Safe', 'ViewIsPrefix', 'ReadsCurrent', 'TypeOK']


def instance(name, invariants, **over):
    c = dict(DEFAULTS)
    c.update(over)
    mod = 'MC_' + name
    lines = ['---- MODULE %s ----' % mod, 'EXTENDS Shared']
    cfg = ['SPECIFICATION Spec', 'CONSTANTS']
    for k, v in c.items():
        lines.append('c_%s == %s' % (k, tlaval(v)))
        cfg.append(' %s <- c_%s' % (k, k))
    lines.append('====')
    for i in invariants:
        cfg.append('INVARIANT %s' % i)
    return mod, '\n'.join(lines) + '\n', '\n'.join(cfg) + '\n'


def run_instance(name, invariants=INVS, dump=True, timeout=900, **over):
    mod, text, cfg = instance(name, invariants, **over)
    wd = tlc.workdir()
    with open(os.path.join(wd, mod + '.tla'), 'w') as f:
        f.write(text)
    dumpf = os.path.join(wd, mod + '_graph') if dump else None
    r = tlc.run(mod, cfg, wd=wd, workers=16, dump=dumpf, timeout=timeout, deadlock=False)
    return r, (tlaparse.dot(dumpf + '.dot') if dump and not r.violation and not r.errors else None)


def _fmap(x):
    """TLA+ function over handles (parsed as sequence or map) -> {1: .., 2: ..}"""
    if isinstance(x, dict):
        return {int(k): v for k, v in x.items()}
    if isinstance(x, tuple) and len(x) == 2 and x[0] == '#map':
        return {int(k): v for k, v in x[1]}
    return {i + 1: v for i, v in enumerate(x)}


class Session:
    def __init__(self, cfg):
        import darr
        self.darr = darr
        self.cfg = cfg
        self.h = {}
        self.zero = bytes(cfg.rowbytes)
        for rid in (1, 2):
            if cfg.stored_bytes(rid) == self.zero:
                raise ValueError('configuration has an all-zero row')
        self.root = tempfile.mkdtemp(prefix='darrsh_')
        self.path = os.path.join(self.root, 'a.darr')

    def close(self):
        self.h = {}
        shutil.rmtree(self.root, ignore_errors=True)

    def arr(self, ids):
        return self.cfg.initial(tuple(ids))

    def materialize(self, st):
        hl, md = _fmap(st['hlen']), _fmap(st['mode'])
        self.h = {}
        for k in sorted(hl):
            n = hl[k]
            self.darr.asarray(self.path, self.arr([1] * n), overwrite=True)
            self.h[k] = self.darr.Array(self.path, accessmode=md[k])
        # now the files of the state itself
        self.darr.asarray(self.path, self.arr([1]) , overwrite=True)
        dp = os.path.join(self.path, 'arraydescription.json')
        d = json.load(open(dp))
        d['shape'] = [st['dlen']] + list(d['shape'][1:])
        with open(dp, 'w') as f:
            json.dump(d, f)
        with open(os.path.join(self.path, 'arrayvalues.bin'), 'wb') as f:
            for rid in st['rows']:
                f.write(self.zero if rid == 0 else self.cfg.stored_bytes(rid))

    def step(self, name, args):
        view = None
        try:
            h = self.h[args[0]]
            if name == 'H_Read':
                v = h[:]
                view = self.decode([np.ascontiguousarray(v[i:i + 1]).tobytes() for i in range(len(v))])
            elif name == 'H_Append':
                h.append(self.cfg.rows_array(tuple(args[1])))
            elif name == 'H_Truncate':
                self.darr.truncate_array(h, args[1])
            elif name == 'H_SetItem':
                h[args[1]] = self.cfg.row(args[2])
            elif name == 'H_Reopen':
                self.h[args[0]] = self.darr.Array(self.path, accessmode=args[1])
            else:
                raise ValueError(name)
        except Exception as e:
            return classify(e), repr(e)[:200], view
        return 'ok', None, view

    def decode(self, raws):
        out = []
        for b in raws:
            if b == self.zero:
                out.append(0)
            else:
                out.append(self.cfg.decode_rows([b])[0])
        return tuple(out)

    def observe(self):
        d = disk.ArrayDir(self.path)
        o = {}
        rr, t = d.rows_raw(self.cfg.rowbytes)
        o['rows'] = self.decode(rr)
        o['tail'] = t
        o['dlen'] = d.shape[0] if d.dstate == 'ok' and not d.dproblem else None
        o['hlen'] = {k: _safelen(h) for k, h in self.h.items()}
        o['mode'] = {k: h.accessmode for k, h in self.h.items()}
        try:
            f = self.darr.Array(self.path)
            v = f[:]
            o['fresh'] = self.decode([np.ascontiguousarray(v[i:i + 1]).tobytes() for i in range(len(v))])
        except Exception as e:
            o['fresh'] = 'raises'
        return o


def _safelen(h):
    try:
        return len(h)
    except Exception as e:
        return 'len() raises %s' % type(e).__name__


def mismatches(exp, obs, out, view):
    mm = []
    if tuple(exp['rows']) != obs['rows'] or obs['tail']:
        mm.append(('file rows', tuple(exp['rows']), (obs['rows'], obs['tail'])))
    if exp['dlen'] != obs['dlen']:
        mm.append(('length in arraydescription.json', exp['dlen'], obs['dlen']))
    if _fmap(exp['hlen']) != obs['hlen']:
        mm.append(('len() of the handles', _fmap(exp['hlen']), obs['hlen']))
    if _fmap(exp['mode']) != obs['mode']:
        mm.append(('access modes', _fmap(exp['mode']), obs['mode']))
    if (exp['out'] == 'ok') != (out == 'ok'):
        mm.append(('outcome', exp['out'], out))
    ev = tuple(exp['view'])
    if ev != (-1,) and view is not None and tuple(view) != ev:
        mm.append(('rows read', ev, view))
    fresh = tuple(exp['rows']) if exp['dlen'] == len(exp['rows']) else 'raises'
    if obs['fresh'] != fresh:
        mm.append(('fresh handle', fresh, obs['fresh']))
    return mm


def replay_edges(g, jobs):
    """jobs: list of (src node id, label name, args, [dst node ids], cfg key) -> list of result dicts"""
    out = []
    for (src, name, args, dsts, ckey) in jobs:
        cfg = Config(*ckey[:3], form='native', valset=ckey[3], iterform='list')
        try:
            sess = Session(cfg)
        except ValueError:
            continue
        try:
            st = g.nodes[src]
            sess.materialize(st)
            o, exc, view = sess.step(name, args)
            obs = sess.observe()
            best = None
            hl = _fmap(st['hlen'])
            was_stale = hl[args[0]] != st['dlen'] or st['dlen'] != len(st['rows'])
            if was_stale and o != 'ok' and obs['rows'] == tuple(st['rows']) and obs['dlen'] == st['dlen'] and not obs['tail']:
                best = []       # refusing to work through an out-of-date handle, changing nothing, is fine too
            for d in ([] if best == [] else dsts):
                mm = mismatches(g.nodes[d], obs, o, view)
                if best is None or len(mm) < len(best):
                    best = mm
            out.append({'src': {k: st[k] for k in ('rows', 'dlen', 'hlen', 'mode')}, 'name': name, 'args': args, 'out': o,
                        'exc': exc, 'mism': best, 'cfg': cfg.as_dict()})
        finally:
            sess.close()
    return out
