"""Run TLC on the specifications in /verif/spec.  Standard library only."""
import os
import re
import shutil
import subprocess
import tempfile
import time
import json

VERIF = os.path.dirname(os.path.dirname(os.path.abspath(__file__)))
SPEC = os.path.join(VERIF, 'spec')
JAR = '/opt/veriftools/tla/tla2tools.jar:/opt/veriftools/tla/CommunityModules-deps.jar'


class TlcError(Exception):
    """machinery failure (exit 2), never a violation"""


class Result:
    def __init__(self):
        self.generated = 0
        self.distinct = 0
        self.depth = 0
        self.coverage = {}
        self.violation = None      # (kind, name)
        self.trace = []            # [(label, state)]
        self.errors = []
        self.out = ''
        self.wall_s = 0.0
        self.workdir = None
        self.cmd = ''

    def ok(self):
        return self.violation is None and not self.errors


_workdirs = []


def workdir():
    d = tempfile.mkdtemp(prefix='darrverif_')
    _workdirs.append(d)
    for fn in os.listdir(SPEC):
        if fn.endswith('.tla'):
            shutil.copy(os.path.join(SPEC, fn), d)
    return d


def cleanup():
    for d in _workdirs:
        shutil.rmtree(d, ignore_errors=True)
    del _workdirs[:]


import atexit
atexit.register(cleanup)

_cov = re.compile(r'^<(\w+) line \d+, col \d+ to line \d+, col \d+ of module (\w+)>: (\d+):(\d+)\s*$')


def run(module, cfg, *, wd=None, workers=8, dump=None, simulate=None, depth=None,
        coverage=True, deadlock=False, env=None, timeout=600, extra=(), seed=None,
        heap='4g', dfs=False):
    """module: name of a module present in the work dir (spec/*.tla are copied
    there); cfg: text of the configuration file.  Returns Result."""
    wd = wd or workdir()
    cfgp = os.path.join(wd, module + '_run.cfg')
    with open(cfgp, 'w') as f:
        f.write(cfg)
    meta = tempfile.mkdtemp(prefix='meta_', dir=wd)
    cmd = ['java', '-XX:+UseParallelGC', '-Xmx' + heap, '-Djava.io.tmpdir=' + meta]    # TLC's own scratch goes with the work directory
    if dfs:
        cmd.append('-Dtlc2.tool.queue.IStateQueue=StateDeque')
    cmd += ['-cp', JAR, 'tlc2.TLC', '-workers', str(workers), '-metadir', meta,
            '-noGenerateSpecTE', '-config', cfgp]
    if not deadlock:
        cmd.append('-deadlock')
    if coverage:
        cmd += ['-coverage', '1']
    if dump:
        cmd += ['-dump', 'dot,actionlabels', dump]
    if simulate:
        cmd += ['-simulate', simulate]
    if depth:
        cmd += ['-depth', str(depth)]
    if seed is not None:
        cmd += ['-seed', str(seed)]
    cmd += list(extra)
    cmd.append(module + '.tla')
    e = dict(os.environ)
    e.pop('JAVA_TOOL_OPTIONS', None)
    if env:
        e.update(env)
    r = Result()
    r.workdir = wd
    r.cmd = ' '.join(cmd)
    t0 = time.time()
    try:
        p = subprocess.run(cmd, cwd=wd, env=e, stdout=subprocess.PIPE, stderr=subprocess.STDOUT,
                           timeout=timeout, text=True, errors='replace')
    except subprocess.TimeoutExpired as ex:
        r.wall_s = time.time() - t0
        r.out = (ex.stdout or b'').decode('utf-8', 'replace') if isinstance(ex.stdout, bytes) else (ex.stdout or '')
        if simulate:
            _parse(r)
            return r
        raise TlcError('TLC timeout after %ss: %s' % (timeout, module))
    r.wall_s = time.time() - t0
    r.out = p.stdout
    _parse(r)
    shutil.rmtree(meta, ignore_errors=True)
    return r


def _parse(r):
    out = r.out
    m = None
    for m in re.finditer(r'(\d+) states generated, (\d+) distinct states found', out):
        pass
    if m:
        r.generated, r.distinct = int(m.group(1)), int(m.group(2))
    m = re.search(r'The depth of the complete state graph search is (\d+)', out)
    if m:
        r.depth = int(m.group(1))
    for line in out.splitlines():
        c = _cov.match(line)
        if c:
            name = c.group(1)
            d, t = int(c.group(3)), int(c.group(4))
            od, ot = r.coverage.get(name, (0, 0))
            r.coverage[name] = (od + d, ot + t)
    for m in re.finditer(r'^Error: (.*)$', out, re.M):
        msg = m.group(1)
        mi = re.match(r'Invariant (\S+) is violated', msg)
        ma = re.match(r'Action property (\S+) is violated', msg)
        if mi:
            r.violation = ('invariant', mi.group(1))
        elif ma:
            r.violation = ('action_property', ma.group(1))
        elif msg.startswith('Deadlock reached'):
            r.violation = ('deadlock', 'deadlock')
        elif msg.startswith('Temporal properties were violated'):
            r.violation = ('temporal', 'temporal')
        elif msg.startswith('The behavior up to this point') or msg.startswith('The following behavior'):
            pass
        else:
            r.errors.append(msg)
    if r.violation:
        from . import tlaparse
        i = out.find('The behavior up to this point is:')
        if i >= 0:
            try:
                r.trace = tlaparse.trace(out[i:])
            except Exception as ex:  # pragma: no cover
                r.errors.append('trace parse: %r' % ex)
    if not r.errors and r.violation is None and 'Model checking completed' not in out \
            and 'states generated' not in out and 'Finished in' not in out:
        r.errors.append('TLC produced no result:\n' + out[-2000:])


def must_pass(r, what):
    """raise TlcError unless the run finished without violation/errors"""
    if r.errors:
        raise TlcError('%s: TLC errors: %s\n%s' % (what, r.errors[:3], r.out[-3000:]))
    if r.violation:
        raise TlcError('%s: TLC reports %s\n%s' % (what, r.violation, r.out[-3000:]))
    return r


def check_coverage(r, actions, what):
    """vacuity guard: every listed action must have been taken"""
    missing = [a for a in actions if r.coverage.get(a, (0, 0))[1] == 0]
    if missing:
        raise TlcError('%s: actions never taken (vacuous model): %s' % (what, missing))


def ndjson(path):
    out = []
    with open(path) as f:
        for line in f:
            line = line.strip()
            if line:
                out.append(json.loads(line))
    return out


def table(extends, expr, defs='', name='Gen', timeout=600, wd=None, heap='4g'):
    """Evaluate the TLA+ set-of-records expression `expr` (in a module that
    EXTENDS `extends`) with TLC and return it as a list of dicts.  The values
    come from TLC, never from a Python re-implementation of the spec."""
    own = wd is None
    wd = wd or workdir()
    mod = 'Gen_' + name
    out = os.path.join(wd, mod + '.ndjson')
    text = ('---- MODULE %s ----\nEXTENDS %s, Json, IOUtils, SequencesExt, FiniteSetsExt, TLC\n%s\n'
            'GenRows == %s\nASSUME ndJsonSerialize(IOEnv.OUT, SetToSeq(GenRows))\n'
            'VARIABLE gen_v\nGenInit == gen_v = 0\nGenNext == UNCHANGED gen_v\n====\n') % (mod, extends, defs, expr)
    with open(os.path.join(wd, mod + '.tla'), 'w') as f:
        f.write(text)
    r = run(mod, 'INIT GenInit\nNEXT GenNext\n', wd=wd, workers=1, coverage=False, env={'OUT': out},
            timeout=timeout, heap=heap)
    if r.errors or r.violation or not os.path.exists(out):
        raise TlcError('oracle table %s failed: %s\n%s' % (name, r.errors[:2], r.out[-2500:]))
    rows = ndjson(out)
    r.rows = rows
    if own:
        # (also when called in a forked worker, where atexit handlers do not run)
        shutil.rmtree(wd, ignore_errors=True)
        if wd in _workdirs:
            _workdirs.remove(wd)
    return r
