"""pytest plugin (code -> spec): record what the repository's OWN tests do to
darr.Array directories, as traces for spec/TraceArray.tla.

No change to the library: the public entry points of darr.array / darr.metadata
are wrapped at pytest_configure time (before the test modules are imported).
One event per outermost public call on an Array handle; the post-state is the
projection of the real directory (read by harness/disk.py, not by darr), of the
live handle and of a fresh open.  Rows and metadata keys/values are abstracted
to small integers per trace (same bytes -> same id).

A trace ("segment") starts lazily at the first traced call on a directory whose
observed state is a clean quiescent one, and ends (a new one starts later) when
 - a call outside the spec's alphabet is made on it (slice assignment, ...),
 - the files changed behind the recorder's back (tests that corrupt files),
 - a handle older than the last event is used (two live handles: not modelled
   by TraceArray).
A handle constructed after the last event is the spec's Reopen(mode).

Output: ndjson of {init, events, test} in $DARR_TRACE_OUT.
"""
import json
import os

import numpy as np

from . import disk

MAXROWS = 300
NKEYS = 6
NONINT = 777777
FILES = ('arrayvalues.bin', 'arraydescription.json', 'README.txt', 'metadata.json')


def classify(exc):
    if exc is None:
        return 'ok'
    n = type(exc).__name__
    if n == 'AppendDataError':
        return 'AppendDataError'
    for cls, name in ((KeyError, 'KeyError'), (IndexError, 'IndexError'), (TypeError, 'TypeError'),
                      (OSError, 'OSError'), (ValueError, 'ValueError')):
        if isinstance(exc, cls):
            return name
    return 'Raises'


def jsonable(x):
    """independent conversion of a metadata value to what JSON can hold (None if impossible)"""
    if isinstance(x, (np.bool_,)):
        return bool(x)
    if isinstance(x, np.integer):
        return int(x)
    if isinstance(x, np.floating):
        return float(x)
    if isinstance(x, np.ndarray):
        return jsonable(x.tolist())
    if isinstance(x, (list, tuple)):
        return [jsonable(v) for v in x]
    if isinstance(x, dict):
        if not all(isinstance(k, str) for k in x):
            raise TypeError('key')
        return {k: jsonable(v) for k, v in x.items()}
    if x is None or isinstance(x, (bool, int, float, str)):
        return x
    raise TypeError(type(x).__name__)


class Unabstractable(Exception):
    pass


class Seg:
    def __init__(self, path, handle):
        self.path = path
        self.handle = handle
        self.rowmap = {}
        self.keymap = {}
        self.valmap = {}
        self.events = []
        self.init = None
        self.fp = None
        self.lastseq = 0
        self.test = None

    def rid(self, b):
        if b not in self.rowmap:
            self.rowmap[b] = len(self.rowmap) + 1
        return self.rowmap[b]

    def key(self, k):
        if k not in self.keymap:
            if len(self.keymap) >= NKEYS:
                raise Unabstractable('more than %d metadata keys' % NKEYS)
            self.keymap[k] = 'k%d' % (len(self.keymap) + 1)
        return self.keymap[k]

    def val(self, v):
        c = json.dumps(json.loads(json.dumps(jsonable(v))), sort_keys=True)
        if c not in self.valmap:
            self.valmap[c] = len(self.valmap) + 1
        return self.valmap[c]

    def metamap(self, d):
        m = {'k%d' % i: 0 for i in range(1, NKEYS + 1)}
        for k, v in d.items():
            m[self.key(k)] = self.val(v)
        return m


class Recorder:
    def __init__(self):
        self.cur = {}
        self.done = []
        self.seq = 0
        self.depth = 0
        self.busy = False
        self.test = None
        self.stats = {'events': 0, 'segments': 0, 'unmodelled_calls': 0, 'resync_files_changed': 0,
                      'resync_old_handle': 0, 'unclean_starts': 0, 'unabstractable': 0}
        self.Array = None

    # ---------------------------------------------------------- observation
    def fingerprint(self, path):
        out = []
        for f in FILES:
            try:
                st = os.stat(os.path.join(path, f))
                out.append((f, st.st_size, st.st_mtime_ns, st.st_ino))
            except OSError:
                out.append((f, None))
        return tuple(out)

    def observe(self, seg, h, out):
        d = disk.ArrayDir(seg.path)
        if not d.exists:
            return {'gone': True, 'out': out, 'rows': [], 'tail': 0, 'descr': {'k': 'absent'}, 'readme': {'k': 'absent'},
                    'meta': {'k': 'absent'}, 'hlen': 0, 'mode': 'r', 'mmode': 'r', 'fresh': [-1], 'ctx': False}
        numtype, byteorder, tailshape, itemsize = seg.consts
        rowbytes = itemsize
        for s in tailshape:
            rowbytes *= s
        if d.dstate != 'ok':
            descr = {'k': 'torn' if d.dstate == 'torn' else 'absent'}
        elif d.dproblem or d.numtype != numtype or (d.byteorder != byteorder and itemsize > 1) \
                or d.shape[1:] != tailshape or d.descr.get('darrobject') != 'Array':
            descr = {'k': 'bad'}
        else:
            descr = {'k': 'ok', 'len': d.shape[0]}
        if not d.has_data:
            raise Unabstractable('no data file')
        rr, t = d.rows_raw(rowbytes)
        if len(rr) > MAXROWS:
            raise Unabstractable('more than %d rows' % MAXROWS)
        rows = [seg.rid(b) for b in rr]
        tail = 0 if t == 0 else max(1, min(3, round(4 * t / rowbytes)))
        if d.readme is None:
            readme = {'k': 'absent'}
        else:
            st = disk.readme_stamp(d.readme)
            if st is None:
                readme = {'k': 'torn'}
            elif st['numtype'] != numtype or (st['byteorder'] != byteorder and itemsize > 1) or st['shape'][1:] != tailshape:
                readme = {'k': 'bad'}
            else:
                readme = {'k': 'ok', 'len': st['shape'][0], 'hasmeta': st['hasmeta']}
        if d.mstate == 'absent':
            meta = {'k': 'absent'}
        elif d.mstate == 'torn' or not isinstance(d.meta, dict):
            meta = {'k': 'torn'}
        else:
            meta = {'k': 'ok', 'd': seg.metamap(d.meta)}
        self.busy = True
        try:
            try:
                f = self.Array(seg.path)
                v = f[:]
                if len(v) > MAXROWS:
                    raise Unabstractable('rows')
                fresh = [seg.rid(np.ascontiguousarray(v[i:i + 1]).tobytes()) for i in range(len(v))]
            except Unabstractable:
                raise
            except Exception:
                fresh = [-1]
        finally:
            self.busy = False
        return {'gone': False, 'out': out, 'rows': rows, 'tail': tail, 'descr': descr, 'readme': readme, 'meta': meta,
                'hlen': len(h), 'mode': h.accessmode, 'mmode': h.metadata.accessmode, 'fresh': fresh, 'ctx': False}

    # ---------------------------------------------------------- segments
    def close(self, seg):
        if self.cur.get(seg.path) is seg:
            del self.cur[seg.path]
        if seg.events:
            self.done.append({'init': seg.init, 'events': seg.events, 'test': seg.test, 'path': os.path.basename(seg.path)})
            self.stats['segments'] += 1
            self.stats['events'] += len(seg.events)

    def begin(self, path, h):
        seg = Seg(path, h)
        seg.test = self.test
        try:
            dt = h.dtype
            seg.consts = (dt.name, {'<': 'little', '>': 'big', '|': 'little', '=': 'little'}[dt.byteorder]
                          if dt.byteorder != '=' else ('little' if np.little_endian else 'big'),
                          tuple(h.shape[1:]), dt.itemsize)
            o = self.observe(seg, h, 'ok')
        except Unabstractable:
            self.stats['unabstractable'] += 1
            return None
        except Exception:
            self.stats['unclean_starts'] += 1
            return None
        hasmeta = o['meta']['k'] == 'ok' and any(o['meta']['d'].values())
        clean = (not o['gone'] and o['descr'] == {'k': 'ok', 'len': len(o['rows'])} and o['tail'] == 0
                 and o['readme'] == {'k': 'ok', 'len': len(o['rows']), 'hasmeta': hasmeta}
                 and o['meta']['k'] in ('ok', 'absent') and (o['meta']['k'] == 'absent' or hasmeta)
                 and o['fresh'] == o['rows'] and o['hlen'] == len(o['rows']) and o['mmode'] == o['mode'])
        if not clean:
            self.stats['unclean_starts'] += 1
            return None
        seg.init = {'rows': o['rows'], 'mode': o['mode'], 'meta': o['meta'] if hasmeta else {'k': 'absent'}}
        seg.fp = self.fingerprint(path)
        seg.lastseq = self.seq
        self.cur[path] = seg
        return seg

    def segment_for(self, h):
        path = os.path.realpath(str(h.path))
        seg = self.cur.get(path)
        if seg is not None:
            if self.fingerprint(path) != seg.fp:
                self.stats['resync_files_changed'] += 1
                self.close(seg)
                seg = None
            elif seg.handle is not h:
                born = getattr(h, '_vt_born', None)
                if born is not None and born[0] > seg.lastseq:
                    try:
                        post = self.observe(seg, h, 'ok')
                    except Unabstractable:
                        self.close(seg)
                        return None
                    seg.handle = h
                    seg.events.append({'op': 'Reopen', 'm': born[1], 'out': 'ok', 'post': post})
                    self.seq += 1
                    seg.lastseq = self.seq
                else:
                    self.stats['resync_old_handle'] += 1
                    self.close(seg)
                    seg = None
        if seg is None:
            seg = self.begin(path, h)
        return seg

    def traced(self, h, build, call):
        """h: Array handle; build(seg) -> event dict, a function returning one after the call, or None"""
        if self.depth or self.busy:
            return call()
        self.depth += 1
        try:
            seg = None
            ev = None
            try:
                seg = self.segment_for(h)
                ev = build(seg) if seg is not None else None
            except Unabstractable:
                if seg is not None:
                    self.close(seg)
                seg = None
            exc = None
            try:
                ret = call()
            except Exception as e:
                exc = e
            if seg is not None:
                try:
                    if callable(ev):
                        ev = ev(exc)
                    if ev is None:
                        self.stats['unmodelled_calls'] += 1
                        self.close(seg)
                    else:
                        ev['out'] = classify(exc)
                        ev['post'] = self.observe(seg, seg.handle, ev['out'])
                        seg.events.append(ev)
                        self.seq += 1
                        seg.lastseq = self.seq
                        seg.fp = self.fingerprint(seg.path)
                        if ev['post']['gone']:
                            self.close(seg)
                except Unabstractable:
                    self.close(seg)
            if exc is not None:
                raise exc
            return ret
        finally:
            self.depth -= 1

    # ---------------------------------------------------------- abstraction of arguments
    def chunk(self, h, seg, x):
        """('ok', [row ids]) or (fault kind, None) for one item given to append/iterappend"""
        try:
            if hasattr(x, '__len__') and np.ndim(x) > 0:
                c = np.array(x, dtype=h.dtype)
            else:
                c = np.array(x, dtype=h.dtype)
                if c.ndim == 0 and h.ndim == 1:
                    c = c.reshape(1)
        except Exception:
            return 'conv', None
        if c.ndim != h.ndim:
            return 'rank', None
        if tuple(c.shape[1:]) != tuple(h.shape[1:]):
            return 'shape', None
        if len(c) > MAXROWS:
            raise Unabstractable('chunk too long')
        return 'ok', [seg.rid(np.ascontiguousarray(c[i:i + 1]).tobytes()) for i in range(len(c))]


REC = Recorder()


class RecIter:
    """hands the items of an iterable on unchanged, remembering their abstraction"""

    def __init__(self, it, h, seg):
        self.it, self.h, self.seg = it, h, seg
        self.items = []         # (kind, rows)
        self.raised = False
        self.unabs = False

    def __iter__(self):
        return self

    def __next__(self):
        try:
            x = next(self.it)
        except StopIteration:
            raise
        except Exception:
            self.raised = True
            raise
        try:
            self.items.append(REC.chunk(self.h, self.seg, x))
        except Unabstractable:
            self.unabs = True
            self.items.append(('ok', []))
        return x


def install():
    import darr
    import darr.array as A
    import darr.metadata as M
    REC.Array = A.Array
    o_init = A.Array.__init__

    def init(self, path, accessmode='r'):
        o_init(self, path, accessmode)
        if not REC.busy:
            REC.seq += 1
            self._vt_born = (REC.seq, self.accessmode)
    A.Array.__init__ = init

    o_iterappend = A.Array.iterappend

    def iterappend(self, arrayiterable):
        state = {}

        def build(seg):
            try:
                it = iter(arrayiterable)
            except TypeError:
                state['noniter'] = True
                return lambda exc: {'op': 'IA_Call', 'cs': [], 'f': {'kind': 'none'}, 'via': 'noniter'}
            ri = RecIter(it, self, seg)
            state['ri'] = ri

            def fin(exc):
                if ri.unabs:
                    raise Unabstractable('chunk')
                items = ri.items
                cs = [r for k, r in items if k == 'ok']
                f = {'kind': 'none'}
                if ri.raised:
                    f = {'kind': 'raise', 'at': len(cs) + 1}
                elif items and items[-1][0] != 'ok':
                    f = {'kind': items[-1][0], 'at': len(cs) + 1}
                if any(k != 'ok' for k, r in items[:-1]):
                    return None
                return {'op': 'IA_Call', 'cs': cs, 'f': f, 'via': 'iterappend'}
            return fin
        return REC.traced(self, build, lambda: o_iterappend(self, state['ri'] if 'ri' in state else arrayiterable))
    A.Array.iterappend = iterappend

    o_append = A.Array.append

    def append(self, array):
        def build(seg):
            k, rows = REC.chunk(self, seg, array)
            if k == 'ok':
                return {'op': 'IA_Call', 'cs': [rows], 'f': {'kind': 'none'}, 'via': 'append'}
            return {'op': 'IA_CallBadAppend', 'kd': k}
        return REC.traced(self, build, lambda: o_append(self, array))
    A.Array.append = append

    o_setitem = A.Array.__setitem__

    def setitem(self, index, value):
        def build(seg):
            if isinstance(index, (int, np.integer)) and not isinstance(index, (bool, np.bool_)) and abs(int(index)) < 100000:
                try:
                    c = np.empty((1,) + tuple(self.shape[1:]), dtype=self.dtype)
                    c[0] = value
                except Exception:
                    return None
                return {'op': 'SetItem', 'i': int(index), 'id': seg.rid(c.tobytes())}
            return None
        return REC.traced(self, build, lambda: o_setitem(self, index, value))
    A.Array.__setitem__ = setitem

    o_mode = A.Array.accessmode

    def setmode(self, value):
        def build(seg):
            if value in ('r', 'r+'):
                return {'op': 'SetMode', 'm': value}
            return {'op': 'SetMode', 'm': 'w'} if isinstance(value, str) else None
        if not hasattr(self, '_vt_born'):     # assignment inside __init__
            return o_mode.fset(self, value)
        return REC.traced(self, build, lambda: o_mode.fset(self, value))
    A.Array.accessmode = property(o_mode.fget, setmode, o_mode.fdel, o_mode.__doc__)

    o_trunc = A.truncate_array

    def truncate_array(a, index):
        if not isinstance(a, A.Array):
            return o_trunc(a, index)

        def build(seg):
            if isinstance(index, (int, np.integer)) and not isinstance(index, (bool, np.bool_)):
                return {'op': 'TR_Call', 'i': int(index)} if abs(int(index)) < 100000 else None
            return {'op': 'TR_Call', 'i': NONINT}
        return REC.traced(a, build, lambda: o_trunc(a, index))
    A.truncate_array = truncate_array
    darr.truncate_array = truncate_array

    o_delete = A.delete_array

    def delete_array(a):
        if not isinstance(a, A.Array):
            return o_delete(a)
        return REC.traced(a, lambda seg: {'op': 'Delete'}, lambda: o_delete(a))
    A.delete_array = delete_array
    darr.delete_array = delete_array

    # --- metadata: find the array handle through the directory
    def owner(md):
        path = os.path.realpath(os.path.dirname(str(md._path)))
        seg = REC.cur.get(path)
        if seg is not None and seg.handle.metadata is md:
            return seg.handle
        return getattr(md, '_vt_owner', None)

    o_ainit_meta = A.Array.metadata

    def metadata_get(self):
        md = o_ainit_meta.fget(self)
        try:
            md._vt_owner = self
        except Exception:
            pass
        return md
    A.Array.metadata = property(metadata_get, o_ainit_meta.fset, o_ainit_meta.fdel, o_ainit_meta.__doc__)

    def mwrap(name, builder):
        orig = getattr(M.MetaData, name)

        def w(self, *a, **kw):
            h = owner(self)
            if h is None or not isinstance(h, A.Array):
                return orig(self, *a, **kw)
            return REC.traced(h, lambda seg: builder(seg, *a, **kw), lambda: orig(self, *a, **kw))
        w.__name__ = name
        setattr(M.MetaData, name, w)

    def b_update(seg, *a, **kw):
        try:
            d = dict(*a, **kw)
        except Exception:
            return None
        if len(d) == 0:
            return {'op': 'M_Call', 'kd': 'update0', 'key': 'k1', 'v': 1}
        if len(d) != 1:
            return None
        (k, v), = d.items()
        if not isinstance(k, str):
            return None
        try:
            return {'op': 'M_Call', 'kd': 'update', 'key': seg.key(k), 'v': seg.val(v)}
        except TypeError:
            return {'op': 'M_Call', 'kd': 'updatebad', 'key': seg.key(k), 'v': 1}

    def b_setitem(seg, k, v):
        if not isinstance(k, str):
            return None
        try:
            return {'op': 'M_Call', 'kd': 'setitem', 'key': seg.key(k), 'v': seg.val(v)}
        except TypeError:
            return None

    def b_pop(seg, *a):
        if not a or not isinstance(a[0], str):
            return None
        return {'op': 'M_Call', 'kd': 'pop' if len(a) == 1 else 'popd', 'key': seg.key(a[0]), 'v': 1}

    mwrap('update', b_update)
    mwrap('__setitem__', b_setitem)
    mwrap('pop', b_pop)
    mwrap('popitem', lambda seg: {'op': 'M_Call', 'kd': 'popitem', 'key': 'k1', 'v': 1})
    mwrap('__delitem__', lambda seg, k: {'op': 'M_Call', 'kd': 'del', 'key': seg.key(k), 'v': 1} if isinstance(k, str) else None)

    o_mmode = M.MetaData.accessmode

    def set_mmode(self, value):
        h = owner(self)
        if h is None or not isinstance(h, A.Array) or REC.depth or value not in ('r', 'r+'):
            return o_mmode.fset(self, value)
        return REC.traced(h, lambda seg: {'op': 'SetMetaMode', 'm': value}, lambda: o_mmode.fset(self, value))
    M.MetaData.accessmode = property(o_mmode.fget, set_mmode, o_mmode.fdel, o_mmode.__doc__)


def dump():
    for seg in list(REC.cur.values()):
        REC.close(seg)
    out = os.environ.get('DARR_TRACE_OUT')
    if out:
        with open(out, 'w') as f:
            for t in REC.done:
                f.write(json.dumps(t) + '\n')
        with open(out + '.stats', 'w') as f:
            json.dump(REC.stats, f)


# ---------------------------------------------------------------- pytest hooks
def pytest_configure(config):
    install()


def pytest_runtest_setup(item):
    REC.test = item.nodeid


def pytest_runtest_teardown(item, nextitem):
    # temporary directories go away with the test: close what is open
    for seg in list(REC.cur.values()):
        REC.close(seg)


def pytest_unconfigure(config):
    dump()
