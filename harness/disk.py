"""Independent reader of Darr directories: uses only the documented format
(docs/design.rst): headerless raw values in C order + arraydescription.json.
No `import darr`, no numpy.  This is the 'reader that shares no code with
Darr' of C02/C05 and the disk part of the projection pi."""
import json
import os
import re
import struct
import hashlib

# numtype -> (struct code, itemsize, components)
TYPES = {
    'int8': ('b', 1, 1), 'int16': ('h', 2, 1), 'int32': ('i', 4, 1), 'int64': ('q', 8, 1),
    'uint8': ('B', 1, 1), 'uint16': ('H', 2, 1), 'uint32': ('I', 4, 1), 'uint64': ('Q', 8, 1),
    'float16': ('e', 2, 1), 'float32': ('f', 4, 1), 'float64': ('d', 8, 1),
    'complex64': ('f', 8, 2), 'complex128': ('d', 16, 2),
}
REQUIRED = ('numtype', 'byteorder', 'shape', 'arrayorder', 'darrversion', 'darrobject')
DATA, DESCR, README, META = 'arrayvalues.bin', 'arraydescription.json', 'README.txt', 'metadata.json'


def prod(xs):
    p = 1
    for x in xs:
        p *= x
    return p


def read_json(path):
    """('absent', None) | ('torn', None) | ('ok', obj)"""
    if not os.path.exists(path):
        return 'absent', None
    try:
        with open(path, 'r', encoding='utf-8') as f:
            return 'ok', json.load(f)
    except (ValueError, UnicodeDecodeError):
        return 'torn', None


def check_descr(d):
    """None if d is a well-formed array descriptor, else a reason"""
    if not isinstance(d, dict):
        return 'not a dict'
    for k in REQUIRED:
        if k not in d:
            return 'missing key ' + k
    if d['numtype'] not in TYPES:
        return 'bad numtype'
    if d['byteorder'] not in ('little', 'big'):
        return 'bad byteorder'
    if d['arrayorder'] != 'C':
        return 'arrayorder is not C'
    sh = d['shape']
    if not isinstance(sh, list) or not all(isinstance(x, int) and not isinstance(x, bool) and x >= 0 for x in sh):
        return 'bad shape'
    if len(sh) < 1:
        return 'bad shape'
    if not isinstance(d['darrversion'], str):
        return 'bad darrversion'
    return None


class ArrayDir:
    """What the files of an array directory say, read without Darr."""

    def __init__(self, path):
        self.path = str(path)
        self.exists = os.path.isdir(self.path)
        self.names = sorted(os.listdir(self.path)) if self.exists else []
        self.dstate, self.descr = read_json(os.path.join(self.path, DESCR))
        self.dproblem = check_descr(self.descr) if self.dstate == 'ok' else self.dstate
        dp = os.path.join(self.path, DATA)
        self.has_data = os.path.isfile(dp)
        self.datasize = os.path.getsize(dp) if self.has_data else -1
        self.mstate, self.meta = read_json(os.path.join(self.path, META))
        rp = os.path.join(self.path, README)
        self.readme = None
        if os.path.isfile(rp):
            with open(rp, 'rb') as f:
                self.readme = f.read()

    # --- the documented format ---
    def valid(self):
        return self.dproblem is None and self.has_data

    @property
    def numtype(self):
        return self.descr['numtype']

    @property
    def byteorder(self):
        return self.descr['byteorder']

    @property
    def shape(self):
        return tuple(self.descr['shape'])

    @property
    def itemsize(self):
        return TYPES[self.numtype][1]

    def expected_size(self):
        return prod(self.shape) * self.itemsize

    def size_ok(self):
        return self.valid() and self.datasize == self.expected_size()

    def rowbytes(self):
        return prod(self.shape[1:]) * self.itemsize

    def raw(self):
        with open(os.path.join(self.path, DATA), 'rb') as f:
            return f.read()

    def rows_raw(self, rowbytes=None):
        """(list of complete row byte strings, number of trailing bytes)"""
        rb = rowbytes if rowbytes is not None else self.rowbytes()
        data = self.raw()
        n = len(data) // rb if rb else 0
        return [data[i * rb:(i + 1) * rb] for i in range(n)], (len(data) - n * rb if rb else len(data))

    def elements(self):
        """decode every element with struct: list of python numbers (complex as
        (re, im) tuples), in C order"""
        code, isz, comp = TYPES[self.numtype]
        e = '<' if self.byteorder == 'little' else '>'
        data = self.raw()
        n = len(data) // (isz // comp)
        vals = struct.unpack(e + str(n) + code, data[:n * (isz // comp)])
        if comp == 2:
            return [(vals[i], vals[i + 1]) for i in range(0, n - 1, 2)]
        return list(vals)


def bits(v, numtype):
    """canonical bit pattern (big-endian bytes) of a python number for numtype"""
    code, isz, comp = TYPES[numtype]
    if comp == 2:
        if isinstance(v, complex):
            v = (v.real, v.imag)
        return struct.pack('>' + code, v[0]) + struct.pack('>' + code, v[1])
    return struct.pack('>' + code, v)


# ---------------------------------------------------------------- README stamp
_num = {
    '8-bit signed integer': 'int8', '16‐bit signed integer': 'int16', '32‐bit signed integer': 'int32',
    '64‐bit signed integer': 'int64', '8‐bit unsigned integer': 'uint8',
    '16‐bit unsigned integer': 'uint16', '32‐bit unsigned integer': 'uint32',
    '64‐bit unsigned integer': 'uint64', '16-bit half precision float': 'float16',
    '32-bit IEEE single precision float': 'float32', '64-bit IEEE double precision float': 'float64',
    '64-bit IEEE single‐precision complex number': 'complex64',
    '128-bit IEEE double‐precision complex number': 'complex128',
}


def readme_stamp(text):
    """The facts an Array README states: dict(numtype, byteorder, shape, hasmeta)
    or None if the text is not a README (torn)."""
    if isinstance(text, bytes):
        try:
            text = text.decode('utf-8')
        except UnicodeDecodeError:
            return None
    m = re.search(r'^  Numeric type: (.*)$', text, re.M)
    b = re.search(r'^  Byte order: (\w+) ', text, re.M)
    l1 = re.search(r'^  Array length: (\d+)$', text, re.M)
    ln = re.search(r'^  Array dimensions: \(([\d, ]*)\)$', text, re.M)
    if not (m and b and (l1 or ln)):
        return None
    nt = None
    for k, v in _num.items():
        if m.group(1).startswith(k):
            nt = v
    if l1:
        shape = (int(l1.group(1)),)
    else:
        shape = tuple(int(x) for x in ln.group(1).replace(' ', '').split(',') if x != '')
    return {'numtype': nt, 'byteorder': b.group(1), 'shape': shape,
            'hasmeta': "The file 'metadata.json' contains metadata" in text.replace('\n', ' ')}


def ragged_readme_stamp(text):
    """facts of a ragged README: n, ndim, numtype name, listed (index, length)"""
    if isinstance(text, bytes):
        try:
            text = text.decode('utf-8')
        except UnicodeDecodeError:
            return None
    flat = re.sub(r'\s+', ' ', text)
    m = re.search(r'This ragged array is a sequence of (\d+) subarrays, each of which is (\d+)-dimensional', flat)
    t = re.search(r'The array consists of (\w+) numbers', flat)
    if not (m and t):
        return None
    listed = [(int(a), int(b)) for a, b in re.findall(r'^    (\d+): \((\d+), ', text, re.M)]
    return {'n': int(m.group(1)), 'ndim': int(m.group(2)), 'numtype': t.group(1), 'listed': listed,
            'ellipsis': bool(re.search(r'^    \.\.\.$', text, re.M)),
            'firstfive': 'first five' in flat, 'andlast': 'and last subarrays' in flat}


# ---------------------------------------------------------------- snapshots
def snapshot(path, follow=False):
    """Recursive byte snapshot: {relative name: ('f', sha) | ('d',) | ('l', target)}"""
    out = {}
    path = str(path)
    if os.path.islink(path):
        return {'.': ('l', os.readlink(path))}
    if os.path.isfile(path):
        with open(path, 'rb') as f:
            return {'.': ('f', hashlib.sha256(f.read()).hexdigest())}
    if not os.path.isdir(path):
        return {'.': ('missing',)}
    out['.'] = ('d',)
    for root, dirs, files in os.walk(path):
        for name in list(dirs) + files:
            p = os.path.join(root, name)
            rel = os.path.relpath(p, path)
            if os.path.islink(p):
                out[rel] = ('l', os.readlink(p))
            elif os.path.isdir(p):
                out[rel] = ('d',)
            else:
                with open(p, 'rb') as f:
                    out[rel] = ('f', hashlib.sha256(f.read()).hexdigest())
    return out


def snapdiff(a, b):
    ks = sorted(set(a) | set(b))
    return [(k, a.get(k), b.get(k)) for k in ks if a.get(k) != b.get(k)]
