"""C20: DataDir never modifies protected files and round-trips user files.
spec/DirTree.tla: TLC enumerates path spellings (components ., .., empty,
protected name, sub-directory, file in a sub-directory, user file, missing
name, the directory's own name) and evaluates Lex / OsOk / the protection
rule; every row x public method x str/Path/absolute form x overwrite is
executed with a recursive byte snapshot around the call."""
import json
import multiprocessing as mp
import os
import shutil
import tempfile
import traceback
import warnings
from pathlib import Path

import numpy as np

from .. import tlc, disk
from ..common import Run, Machinery

warnings.simplefilter('ignore')
USER, NEW = 'notes.json', 'newfile.json'
UCONTENT = {'a': 1, 'ü': [1, 2.5, None, 'ß☃']}
TEXT = 'line one\nzweite Zeile äöü ☃\n'


def make(root, kind):
    import darr
    p = os.path.join(root, 'data.darr')
    if kind == 'Array':
        a = darr.asarray(p, np.arange(6, dtype='int32').reshape(3, 2), accessmode='r+', metadata={'m': 1})
    else:
        a = darr.asraggedarray(p, [[1, 2], [3]], dtype='int16', metadata={'m': 1})
    with open(os.path.join(p, USER), 'w') as f:
        json.dump(UCONTENT, f)
    return a, p


def names(kind, comps, idx):
    """concrete names for the abstract components"""
    prot = (['arraydescription.json', 'arrayvalues.bin', 'README.txt', 'metadata.json'] if kind == 'Array'
            else ['arraydescription.json', 'README.txt', 'metadata.json'])
    sub = ['values', 'indices'][idx % 2]
    inner = ['arrayvalues.bin', 'arraydescription.json', 'README.txt'][idx % 3]
    m = {'P': prot[idx % len(prot)], 'S': sub, 'X': inner, 'U': USER, 'E': NEW, 'D': 'data.darr'}
    return [m.get(c, c) for c in comps]


def do_call(dd, method, fn, overwrite, multi=0):
    if method == 'write_txt':
        dd.write_txt(fn, TEXT, overwrite=overwrite)
    elif method == 'write_jsonfile':
        dd.write_jsonfile(fn, [1, 2, {'x': 'y'}], overwrite=overwrite)
    elif method == 'write_jsondict':
        dd.write_jsondict(fn, {'k': 'v ☃', 'n': [1, 2]}, overwrite=overwrite)
    elif method == 'update_jsondict':
        dd.update_jsondict(fn, {'added': 5})
    elif method == 'delete_files':
        # a protected name anywhere in the list must make the whole call refuse, before anything is removed
        # (variant 4: the bare name instead of a list - a plausible slip of the caller)
        dd.delete_files([[fn], [USER, fn], [fn, USER], [USER, fn, 'does-not-exist'], str(fn)][multi % 5])
    elif method.startswith('open_'):
        mode = {'open_w': 'w', 'open_a': 'a', 'open_x': 'x', 'open_rplus': 'r+', 'open_wb': 'wb', 'open_ab': 'ab',
                'open_rbplus': 'rb+'}[method]
        with dd.open_file(fn, mode) as f:
            f.write(b'ZZ' if 'b' in mode else 'ZZ')
    else:
        raise ValueError(method)


def _job(args):
    rows, effects, seed, k0 = args
    out = {'ran': 0, 'bad': [], 'refused': 0, 'allowed': 0}
    eff = {(e['m'], e['exists'], e['overwrite']): e['effect'] for e in effects}
    # history of the process: arrays have been created, used and deleted before (what a deletion does
    # must not weaken the protection of arrays opened later)
    import darr
    r0 = tempfile.mkdtemp(prefix='darrc20h_')
    try:
        for kd in ('Array', 'RaggedArray'):
            a0, p0 = make(r0, kd)
            os.unlink(os.path.join(p0, USER))
            a0.accessmode = 'r+'
            (darr.delete_array if kd == 'Array' else darr.delete_raggedarray)(a0)
    finally:
        shutil.rmtree(r0, ignore_errors=True)
    methods = sorted({e['m'] for e in effects})
    for ri, row in enumerate(rows):
        kind = row['kind']
        for mi, method in enumerate(methods):
            # rotate forms and overwrite flags over the product; thorough does all
            for form in ('str', 'Path', 'abs'):
                for ow in (False, True):
                    if (ri + mi + k0 + seed + (form == 'Path') + 2 * ow) % _job.stride:
                        continue
                    root = tempfile.mkdtemp(prefix='darrc20_')
                    try:
                        a, p = make(root, kind)
                        comps = names(kind, row['sp'], ri + mi)
                        s = '/'.join(comps)
                        # DataDir joins every file name through pathlib, which drops '.', empty
                        # components and trailing separators before the OS sees them: the OS
                        # walks Strip(spelling) whatever the form (verdict_path)
                        verdict = row['verdict_path']
                        if form == 'str':
                            fn = s
                        elif form == 'Path':
                            fn = Path(s)
                        else:
                            fn = os.path.join(os.path.abspath(p), s)
                        # history on the same DataDir: the permitted accesses came first (a plain 'r' open / a read
                        # with the very same spelling must not weaken what is refused afterwards)
                        if (ri + k0 + seed) % 2 == 0:
                            try:
                                with a.datadir.open_file(fn, 'r') as fh:
                                    fh.read(1)
                            except Exception:
                                pass
                            try:
                                a.datadir.read_txt(fn)
                            except Exception:
                                pass
                        before = disk.snapshot(root)
                        try:
                            do_call(a.datadir, method, fn, ow, multi=(ri + k0 + seed) if verdict == 'Refused' else 0)
                            got = 'ok'
                        except OSError:
                            got = 'OSError'
                        except Exception as e:
                            got = type(e).__name__
                        after = disk.snapshot(root)
                        out['ran'] += 1
                        case = {'kind': kind, 'method': method, 'spelling': s, 'form': form, 'overwrite': ow,
                                'lexical_target': row['target'], 'verdict': verdict}
                        if verdict in ('Refused', 'OsError'):
                            out['refused'] += 1
                            df = disk.snapdiff(before, after)
                            if got != 'OSError' or df:
                                if verdict == 'OsError' and method == 'delete_files' and got == 'ok' and not df:
                                    continue      # deleting what the OS cannot find is a no-op, not an error
                                if method == 'delete_files' and verdict == 'Refused' and (ri + k0 + seed) % 5 == 4 and not df:
                                    continue      # a bare string is iterated character by character: nothing may change
                                out['bad'].append({**case, 'expected': 'OSError and directory byte-identical',
                                                   'got': got, 'changed': df[:3]})
                        else:
                            out['allowed'] += 1
                            tgt = row['target'][-1]
                            exists = tgt == 'U'
                            e = eff[(method, exists, ow)]
                            tname = USER if exists else NEW
                            tpath = os.path.join('data.darr', tname)
                            df = [d for d in disk.snapdiff(before, after) if d[0] != tpath]
                            if df:
                                out['bad'].append({**case, 'expected': 'only %s may change' % tname, 'got': got,
                                                   'changed': df[:3]})
                                continue
                            full = os.path.join(p, tname)
                            okk = True
                            if e == 'OSError':
                                okk = got == 'OSError' and before.get(tpath) == after.get(tpath)
                            elif e == 'NoChange':
                                okk = got == 'ok' and before.get(tpath) == after.get(tpath)
                            elif e == 'Deleted':
                                okk = got == 'ok' and not os.path.exists(full)
                            elif e == 'Written':
                                okk = got == 'ok' and os.path.exists(full)
                                if okk and method == 'write_txt':
                                    okk = a.datadir.read_txt(tname) == TEXT
                                if okk and method == 'write_jsondict':
                                    okk = a.datadir.read_jsondict(tname) == {'k': 'v ☃', 'n': [1, 2]}
                                if okk and method == 'write_jsonfile':
                                    okk = a.datadir.read_jsonfile(tname) == [1, 2, {'x': 'y'}]
                                if okk and method.startswith('open_'):
                                    okk = open(full, 'rb').read() == b'ZZ'
                            elif e == 'Updated':
                                okk = got == 'ok' and a.datadir.read_jsondict(tname) == dict(UCONTENT, added=5)
                            elif e == 'Appended':
                                old = json.dumps(UCONTENT).encode() if exists else b''
                                okk = got == 'ok' and open(full, 'rb').read() == old + b'ZZ'
                            elif e == 'Modified':
                                old = json.dumps(UCONTENT).encode()
                                okk = got == 'ok' and open(full, 'rb').read() == b'ZZ' + old[2:]
                            if not okk:
                                out['bad'].append({**case, 'expected': e, 'got': got})
                    except Exception:
                        out['bad'].append({'harness': traceback.format_exc()[-500:]})
                    finally:
                        shutil.rmtree(root, ignore_errors=True)
    return out


_job.stride = 4


def roundtrip(seed):
    """user files: write/read round trips, overwrite gate, delete exactly the named files"""
    bad = []
    n = 0
    for kind in ('Array', 'RaggedArray'):
        root = tempfile.mkdtemp(prefix='darrc20r_')
        try:
            a, p = make(root, kind)
            dd = a.datadir
            dicts = [{}, {'a': 1}, {'ü☃': {'n': [1.5, None, True, 'x\n\t"']}, 'k': [[], {}]}, {'big': 2 ** 62, 'neg': -1.5e-300}]
            texts = ['', 'plain', 'äöü ☃   end', 'a\nb\n', 'tab\tquote" backslash\\', 'cr\rlf\ncrlf\r\nend', '\r', 'x\r\n', 'vt\x0bff\x0cnel\x85end', '﻿bom first', 'nul\x00inside']
            for i, d in enumerate(dicts):
                fn = 'u%d.json' % i
                dd.write_jsondict(fn, d)
                n += 1
                if dd.read_jsondict(fn) != d:
                    bad.append({'op': 'write_jsondict/read_jsondict', 'kind': kind, 'value': repr(d)})
                before = open(os.path.join(p, fn), 'rb').read()
                try:
                    dd.write_jsondict(fn, {'other': 1})
                    bad.append({'op': 'write_jsondict replaced an existing file without overwrite', 'kind': kind})
                except OSError:
                    if open(os.path.join(p, fn), 'rb').read() != before:
                        bad.append({'op': 'refused write_jsondict changed the file', 'kind': kind})
                dd.write_jsondict(fn, {'other': 1}, overwrite=True)
                if dd.read_jsondict(fn) != {'other': 1}:
                    bad.append({'op': 'write_jsondict overwrite=True', 'kind': kind})
            for i, t in enumerate(texts):
                fn = 't%d.txt' % i
                dd.write_txt(fn, t)
                n += 1
                got = open(os.path.join(p, fn), encoding='utf-8', newline='').read()
                if got != t:
                    bad.append({'op': 'write_txt content', 'kind': kind, 'value': repr(t), 'got': repr(got)})
                try:
                    back = dd.read_txt(fn)
                except Exception as e:
                    back = 'raises %s' % type(e).__name__
                if back != t:
                    bad.append({'op': 'write_txt/read_txt', 'kind': kind, 'value': repr(t), 'got': repr(back)})
                try:
                    dd.write_txt(fn, 'x')
                    bad.append({'op': 'write_txt replaced an existing file without overwrite', 'kind': kind})
                except OSError:
                    pass
            if dd.read_txt('t1.txt') != 'plain':
                bad.append({'op': 'read_txt', 'kind': kind})
            before = set(os.listdir(p))
            dd.delete_files(['t0.txt', 'u1.json', 'does-not-exist'])
            n += 1
            if before - set(os.listdir(p)) != {'t0.txt', 'u1.json'}:
                bad.append({'op': 'delete_files removes exactly the named files', 'kind': kind,
                            'removed': sorted(before - set(os.listdir(p)))})
        finally:
            shutil.rmtree(root, ignore_errors=True)
    return n, bad



# ---------------------------------------------------------------- spec/UserFiles.tla: the namespace as a state machine
UNAMES = {'u1': 'notes.json', 'u2': 'log.txt'}


def uf_model(thorough):
    mod = 'MC_UserFiles'
    text = ('---- MODULE MC_UserFiles ----\nEXTENDS UserFiles\nc_UserNames == {"u1", "u2"}\nc_Keys == %s\n'
            'c_Texts == {1, 2}\n====\n' % ('{1, 2}' if thorough else '{1}'))
    consts = 'CONSTANTS\n UserNames <- c_UserNames\n Keys <- c_Keys\n Texts <- c_Texts\n'
    cfg = ('SPECIFICATION Spec\n' + consts + 'INVARIANT TypeOK\nINVARIANT ProtectedNeverChanges\n'
           'PROPERTY RefusalChangesNothing\nPROPERTY CopyFaithful\nPROPERTY CopyIndependent\n'
           'PROPERTY SourceIndependent\nPROPERTY OnlyNamed\n')
    wd = tlc.workdir()
    with open(os.path.join(wd, mod + '.tla'), 'w') as f:
        f.write(text)
    dumpf = os.path.join(wd, 'uf_graph')
    r = tlc.run(mod, cfg, wd=wd, workers=8, dump=dumpf, timeout=900)
    tlc.must_pass(r, mod)
    tlc.check_coverage(r, ['Write', 'Update', 'Delete', 'OpenAppend', 'CopyDir', 'WriteCopy', 'Observe'], mod)
    # vacuity control: overwriting a user file is reachable, so this property must be violated
    rc = tlc.run(mod, 'SPECIFICATION Spec\n' + consts + 'PROPERTY NeverOverwritten\n', wd=wd, workers=4,
                 coverage=False, timeout=300)
    if rc.violation is None:
        raise Machinery('UserFiles control: NeverOverwritten was not violated (vacuous model?)')
    from .. import tlaparse
    return r, tlaparse.dot(dumpf + '.dot')


def uf_text(v):
    return TEXT * v


def uf_json(ks):
    return {'k%d' % k: [k, 'v ☃'] for k in sorted(ks)}


def uf_expected_bytes_ok(path, c):
    """independent reading of a user file against the abstract content; returns a mismatch text or None"""
    if c['t'] == 'none':
        return None if not os.path.lexists(path) else 'exists, expected absent'
    if not os.path.isfile(path):
        return 'missing'
    raw = open(path, 'rb').read()
    if c['t'] == 'txt':
        return None if raw == uf_text(c['v']).encode('utf-8') else 'text bytes differ: %r' % raw[:60]
    try:
        got = json.loads(raw.decode('utf-8'))
    except Exception as e:
        return 'not JSON (%s)' % type(e).__name__
    return None if got == uf_json(c['v']) else 'JSON differs: %r' % (got,)


def _uf_job(batch):
    import hashlib
    import darr
    g = _UF['g']
    out = []
    for (jid, kind, path, seed) in batch:
        res = {'kind': kind, 'steps': 0, 'jid': jid}
        root = tempfile.mkdtemp(prefix='darrc20u_')
        try:
            a, p = make(root, kind)
            os.unlink(os.path.join(p, USER))
            dd = a.datadir
            cpp = os.path.join(root, 'replica.darr')
            cpdd = None
            prot = (['arraydescription.json', 'arrayvalues.bin', 'README.txt', 'metadata.json'] if kind == 'Array'
                    else ['arraydescription.json', 'README.txt', 'metadata.json', 'values', 'indices/arrayvalues.bin',
                          'values/README.txt'])
            base = {k: v for k, v in disk.snapshot(p).items() if k not in UNAMES.values()}
            for si, (src, (name, args, dst)) in enumerate(path):
                st = g.nodes[dst]
                j = jid + si + seed
                form = (lambda n: Path(n)) if j % 3 == 1 else ((lambda n: './' + n) if j % 3 == 2 else (lambda n: n))

                def nm(n):
                    return prot[j % len(prot)] if n == 'P' else UNAMES[n]
                exc = None
                skipped = False
                try:
                    if name == 'Write':
                        n, c, ow = args
                        if c['t'] == 'txt':
                            dd.write_txt(form(nm(n)), uf_text(c['v']), overwrite=ow)
                        elif j % 2:
                            dd.write_jsondict(form(nm(n)), uf_json(c['v']), overwrite=ow)
                        else:
                            dd.write_jsonfile(form(nm(n)), uf_json(c['v']), overwrite=ow)
                    elif name == 'Update':
                        n, ks = args
                        if j % 2:
                            dd.update_jsondict(form(nm(n)), uf_json(ks))
                        else:
                            dd.update_jsondict(form(nm(n)), **uf_json(ks))
                    elif name == 'Delete':
                        lst = [form(nm(n)) for n in sorted(args[0], reverse=bool(j % 2))]
                        dd.delete_files(tuple(lst) if j % 4 == 3 else lst)
                    elif name == 'OpenAppend':
                        n = args[0]
                        cur = g.nodes[src]['f'][n]
                        if n != 'P' and cur['t'] != 'none' and not (cur['t'] == 'txt' and cur['v'] == 1):
                            skipped = True
                        else:
                            with dd.open_file(form(nm(n)), 'a', encoding='utf-8', newline='') as fh:
                                fh.write(TEXT)
                    elif name == 'CopyDir':
                        x = dd.copy(cpp if j % 2 else Path(cpp))
                        if cpdd is None:
                            cpdd = x
                    elif name == 'WriteCopy':
                        n, c = args
                        if c['t'] == 'txt':
                            cpdd.write_txt(nm(n), uf_text(c['v']), overwrite=True)
                        else:
                            cpdd.write_jsondict(nm(n), uf_json(c['v']), overwrite=True)
                    elif name == 'Observe':
                        try:
                            sha = dd.sha256checksums()
                        except IsADirectoryError:
                            sha = None      # named deviation ShaOnRagged: sub-directories are not skipped
                            if kind == 'Array':
                                raise
                        if sha is not None:
                            want = {}
                            for e in os.listdir(p):
                                fp = os.path.join(p, e)
                                if os.path.isfile(fp):
                                    want[str(Path(p) / e)] = hashlib.sha256(open(fp, 'rb').read()).hexdigest()
                            if {k: v for k, v in sha.items() if os.path.isfile(k)} != want or dd.sha256 != sha:
                                res['mism'] = [('sha256checksums', 'one sha256 digest per file', repr(sha)[:300])]
                    else:
                        raise Machinery('unknown action ' + name)
                except OSError as e:
                    exc = ('Refused', repr(e)[:200])
                except Machinery:
                    raise
                except Exception as e:
                    exc = ('Raises', repr(e)[:200])
                res['steps'] += 1
                mm = res.get('mism', [])
                want_out = 'ok' if skipped else st['out']
                got_out = exc[0] if exc else 'ok'
                if want_out == 'Raises':
                    okout = exc is not None
                else:
                    okout = got_out == want_out
                if not okout:
                    mm.append(('outcome', want_out, got_out + (': ' + exc[1] if exc else '')))
                for n, fn in UNAMES.items():
                    m = uf_expected_bytes_ok(os.path.join(p, fn), st['f'][n])
                    if m:
                        mm.append(('user file %s' % n, st['f'][n], m))
                    elif st['f'][n]['t'] == 'txt' and dd.read_txt(fn) != uf_text(st['f'][n]['v']):
                        mm.append(('read_txt %s' % n, st['f'][n], 'differs'))
                    elif st['f'][n]['t'] == 'json' and dd.read_jsondict(fn) != uf_json(st['f'][n]['v']):
                        mm.append(('read_jsondict %s' % n, st['f'][n], 'differs'))
                now = {k: v for k, v in disk.snapshot(p).items() if k not in UNAMES.values()}
                if now != base:
                    mm.append(('protected files', 'byte-identical', disk.snapdiff(base, now)[:3]))
                if 't' in st['cp']:
                    if os.path.lexists(cpp):
                        mm.append(('replica', 'absent', 'present'))
                else:
                    for n, fn in UNAMES.items():
                        m = uf_expected_bytes_ok(os.path.join(cpp, fn), st['cp'][n])
                        if m:
                            mm.append(('replica user file %s' % n, st['cp'][n], m))
                    nowc = {k: v for k, v in disk.snapshot(cpp).items() if k not in UNAMES.values()}
                    if nowc != base:
                        mm.append(('replica protected files', 'byte-identical to the source',
                                   disk.snapdiff(base, nowc)[:3]))
                if mm:
                    res['mism'] = mm
                    res['at'] = '%s(%s)' % (name, ', '.join(str(x) for x in args))
                    res['from'] = {'f': g.nodes[src]['f'], 'cp': g.nodes[src]['cp']}
                    res['spelling'] = ['plain', 'Path', './'][j % 3]
                    break
        except Machinery:
            raise
        except Exception:
            res['error'] = traceback.format_exc()
        finally:
            shutil.rmtree(root, ignore_errors=True)
        out.append(res)
    return out


_UF = {}


def userfiles_walk(run, thorough, seed):
    import random
    rnd = random.Random(seed)
    r, g = uf_model(thorough)
    run.tlc('UserFiles', r)
    _UF['g'] = g
    parent = {}
    order = []
    for n in g.init:
        parent[n] = None
        order.append(n)
    for n in order:
        for e in g.edges.get(n, []):
            if e[2] not in parent:
                parent[e[2]] = (n, e)
                order.append(e[2])

    def path_to(n):
        pp = []
        while parent[n] is not None:
            m, e = parent[n]
            pp.append((m, e))
            n = m
        return pp[::-1]
    alledges = [(n, e) for n in order for e in g.edges.get(n, [])]
    rnd.shuffle(alledges)
    covered = set()
    paths = []
    cap = 12000 if thorough else 2500
    for (n, e) in alledges:
        key = (n, e[0], repr(e[1]), e[2])
        if key in covered:
            continue
        pth = path_to(n) + [(n, e)]
        node = e[2]
        for _ in range(6):
            nxt = [x for x in g.edges.get(node, []) if (node, x[0], repr(x[1]), x[2]) not in covered]
            if not nxt:
                break
            x = rnd.choice(nxt)
            pth.append((node, x))
            node = x[2]
        for (m, x) in pth:
            covered.add((m, x[0], repr(x[1]), x[2]))
        paths.append(pth)
        if len(paths) >= cap:
            break
    run.add('userfiles_graph_edges', len(alledges))
    run.add('userfiles_edges_covered', len(covered))
    jobs = [(i, ('Array', 'RaggedArray')[(i + seed) % 2], pth, seed) for i, pth in enumerate(paths)]
    batches = [jobs[i:i + 25] for i in range(0, len(jobs), 25)]
    with mp.get_context('fork').Pool(16) as pool:
        for rr in pool.imap_unordered(_uf_job, batches):
            for res in rr:
                if 'error' in res:
                    raise Machinery('UserFiles replay failed: ' + res['error'])
                run.add('userfiles_paths_replayed')
                run.add('evaluations', res['steps'])
                if 'mism' in res:
                    first = res['mism'][0][0].split(' u')[0]
                    sig = 'C20|userfiles|%s|%s|%s' % (res['kind'], res['at'].split('(')[0], first)
                    run.violation(sig, res, {'kind': 'userfiles', 'case': res})

def run(tier, seed):
    run = Run('C20', tier, seed, 'model_checking')
    thorough = tier == 'thorough'
    r = tlc.table('DirTree', 'SpellRows(%d)' % (4 if thorough else 3), name='spell', heap='8g', timeout=1200)
    eff = tlc.table('DirTree', 'EffectRows', name='effects')
    rows = r.rows
    run.add('states', len(rows))
    run.add('transitions', len(rows))
    _job.stride = 2 if thorough else 3
    jobs = [(rows[i:i + 12], eff.rows, seed, i) for i in range(0, len(rows), 12)]
    results = []
    with mp.get_context('fork').Pool(16) as pool:
        for x in pool.imap_unordered(_job, jobs):
            results.append(x)
    for res in results:
        run.add('evaluations', res['ran'])
        run.add('refused_cases', res['refused'])
        run.add('allowed_cases', res['allowed'])
        for b in res['bad']:
            if 'harness' in b:
                raise Machinery(b['harness'])
            cls = 'protected' if b['verdict'] == 'Refused' else ('oserror' if b['verdict'] == 'OsError' else 'user')
            plain = 'plain' if b['spelling'] in (b['spelling'].split('/')[-1],) and b['form'] == 'str' else 'spelled'
            run.violation('C20|%s|%s|%s|%s|%s' % (b['kind'], b['method'], cls, b['form'], plain), b,
                          {'kind': 'datadir', 'case': b})
    userfiles_walk(run, thorough, seed)
    n, bad = roundtrip(seed)
    # the same round trips in an interpreter whose default text encoding is ASCII
    import subprocess
    import sys as _sys
    from .. import tour as _tour
    env = dict(os.environ)
    env.update(_tour.ASCII_ENV)
    pr = subprocess.run([_sys.executable, '-W', 'ignore', '-c',
                         'import json, sys, locale; from harness.checks import c20; n, bad = c20.roundtrip(%d); '
                         'print("RESULT" + json.dumps({"n": n, "bad": bad, "utf8": sys.flags.utf8_mode, "enc": locale.getencoding()}))' % seed],
                        env=env, stdout=subprocess.PIPE, stderr=subprocess.STDOUT, text=True, timeout=600)
    mres = [ln for ln in pr.stdout.splitlines() if ln.startswith('RESULT')]
    if not mres:
        raise Machinery('round trips under the ASCII locale did not run: ' + pr.stdout[-1500:])
    cres = json.loads(mres[-1][6:])
    if cres['utf8'] or 'UTF' in cres['enc'].upper():
        raise Machinery('the ASCII-locale child runs with %r' % cres)
    run.add('roundtrips_under_ascii_locale', cres['n'])
    for b in cres['bad']:
        b['op'] = 'locale=C:' + b['op']
        bad.append(b)
    run.add('evaluations', n)
    for b in bad:
        run.violation('C20|roundtrip|%s' % b['op'], b, {'kind': 'roundtrip', 'case': b})
    run.cov['distinct_nontrivial'] = len(rows)
    run.add('traces_validated_against_impl', len(rows))
    for row in rows[20:23]:
        run.sample(row)
    run.cov['rule'] = ('rows = all spellings up to 3 (thorough 4) components that end lexically on a protected name, a '
                       'sub-directory, a file in a sub-directory, an existing user file or a missing name, with verdict '
                       'Refused / OsError / Allowed evaluated by TLC from spec/DirTree.tla; each row x 12 public writers x '
                       'str / Path / absolute form x overwrite (rotating subset in quick) executed with a recursive byte '
                       'snapshot of the array directory and its parent; user-file effects per the TLC table EffectRows')
    run.assumptions += ['spellings that leave the array directory and do not come back are not enumerated',
                        'symlinked user files are not spellings of protected names']
    return run.finish()
