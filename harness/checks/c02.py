from . import arrayhist


def run(tier, seed):
    return arrayhist.run_check('C02', tier, seed, 'data+meta')
