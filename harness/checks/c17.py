"""C17: a process crash at any point never makes Darr return wrong data.

TLC: CrashSafe on the step-level models with Crashes (and Faults) enabled - a
crash is possible after every file-system effect, including inside data
writes.  Binding: each scenario (macro-edge of the crash-free graph) runs on
the real code under sys.settrace; every distinct on-disk state between two
executed lines, and synthesized torn variants of every file write, are opened
with the real darr; the outcome must be 'raises' or a legitimate state taken
from the spec (pc.legit / pc.legitmeta).  The sequence of observed disk
states is also compared with the spec's internal step chain (write order)."""
import multiprocessing as mp
import os
import random
import shutil
import tempfile
import traceback

import numpy as np

from .. import arraymodel as am
from .. import tlc, walk, disk, crash
from ..common import Run, Machinery
from ..concretize import Config, pick_configs, GARBAGE
from .arrayhist import Sess, edge_class

_CTX = {}


def disk_view(st):
    """abstract disk part of a spec state"""
    return {'rows': tuple(st['rows']), 'tail': st['tail'], 'descr': st['descr'], 'readme': st['readme'],
            'meta': am.expected_view(st)['meta']}


def chains(g, node, limit=64):
    """all internal step chains from `node` to a quiescent node: lists of states"""
    out = []

    def rec(n, acc):
        s = g.nodes[n]
        acc.append(s)
        if am.quiescent(s):
            out.append(list(acc))
        elif len(acc) < limit:
            for (_, _, m) in g.edges.get(n, []):
                rec(m, acc)
        acc.pop()
    rec(node, [])
    return out


def project(sess, path):
    """abstract disk state of a directory copy + what the real darr shows"""
    save = sess.path
    sess.path = path
    try:
        o = sess.observe()
    finally:
        sess.path = save
    return o


def dedup(seq):
    out = []
    for x in seq:
        if not out or out[-1] != x:
            out.append(x)
    return out


def is_subsequence(a, b):
    it = iter(b)
    return all(any(x == y for y in it) for x in a)


def obs_disk(o, sess, fault_b=None):
    t = o['tail_bytes']
    return {'rows': o['rows'], 'tail': t, 'descr': o['descr'], 'readme': {k: v for k, v in o['readme'].items()},
            'meta': {k: v for k, v in o['meta'].items() if k != 'extra'}}


def spec_disk(st, sess):
    d = disk_view(st)
    d['tail'] = sess.real_b(d['tail']) if d['tail'] else 0
    return d


def scenario(job):
    gi, idx, cfgi = job
    g, mg, macros, binding = _CTX['graphs'][gi]
    m = macros[idx]
    src = mg.rep[m.src]
    sess = binding.make_session(cfgi, m)
    sess.plain_ints = True     # the write order of one call is studied here, not its argument forms
    store = tempfile.mkdtemp(prefix='darrcrash_')
    res = {'gi': gi, 'idx': idx, 'label': m.label(), 'cfg': sess.describe(), 'viol': [], 'nonconf': [],
           'snaps': 0, 'variants': 0, 'opens': 0, 'opened_ok': 0}
    try:
        sess.materialize(src)
        # legit sets from the spec: pc of the first internal state
        first = None
        for (name, args, dst) in g.edges.get(_CTX['srcnode'][gi][m.src], []):
            if name == m.name and args == m.args:
                first = dst
        if first is None:
            raise Machinery('macro-edge not found in graph')
        pc = g.nodes[first]['pc']
        if pc.get('op') in ('idle',):
            legit = {tuple(src['ref']), tuple(g.nodes[first]['rows'])}
            legitmeta = [am._asmap(src['refmeta']), am._asmap(g.nodes[first]['refmeta'])]
        else:
            legit = {tuple(x) for x in pc['legit']}
            legitmeta = [_unfreeze_map(x) for x in pc['legitmeta']]
        sn = crash.Snapshots(sess.path, store)
        try:
            exc = sn.run(lambda: _do(sess, m))
        except am.Skip as e:
            res['skipped'] = str(e)
            return res
        res['snaps'] = len(sn.snaps)
        res['events'] = sn.events
        views = []
        dirs = [d for (_, d) in sn.snaps]
        allvariants = []
        for i, (where, d) in enumerate(sn.snaps):
            allvariants.append((where, 'snapshot', d))
            if i > 0:
                for (rel, n, vd) in crash.torn_variants(dirs[i - 1], d, store, 'torn%03d' % i, inplace=sn.inplace_files(i)):
                    allvariants.append((where, 'torn %s to %d bytes' % (rel, n), vd))
        res['variants'] = len(allvariants) - len(sn.snaps)
        for (where, what, d) in allvariants:
            o = project(sess, d)
            res['opens'] += 1
            if what == 'snapshot':
                views.append(obs_disk(o, sess))
            fr = o['fresh']
            # ... and read-write, on a copy (np.memmap in r+ mode may extend a short file)
            rw = os.path.join(store, 'rwcopy')
            shutil.rmtree(rw, ignore_errors=True)
            shutil.copytree(d, rw, symlinks=True)
            try:
                hrw = sess.darr.Array(rw, accessmode='r+')
                v = hrw[:]
                rwrows = sess.cfg.decode_rows([np.ascontiguousarray(v[i:i + 1]).tobytes() for i in range(len(v))])
                del hrw, v
                res['opens'] += 1
                if tuple(rwrows) not in legit:
                    res['viol'].append({'where': where, 'what': what + " (opened with accessmode='r+')",
                                        'opened_with_rows': rwrows, 'legit': sorted(legit)})
            except Exception:
                pass
            if 'raises' in fr:
                continue
            res['opened_ok'] += 1
            if tuple(fr['rows']) not in legit:
                res['viol'].append({'where': where, 'what': what, 'opened_with_rows': fr['rows'],
                                    'legit': sorted(legit), 'disk': obs_disk(o, sess)})
            if 'meta' in fr and fr['meta'] not in legitmeta:
                res['viol'].append({'where': where, 'what': what, 'opened_with_metadata': fr['meta'],
                                    'legitmeta': legitmeta})
        # write order: observed disk states must follow the spec chain
        observed = dedup(views)
        ok = False
        best = None
        for ch in chains(g, first):
            sc = dedup([spec_disk(src_state(src), sess)] + [spec_disk(s, sess) for s in ch])
            if is_subsequence(observed, sc) and observed[-1] == sc[-1]:
                ok = True
                break
            best = sc
        if not ok:
            res['nonconf'].append({'observed': observed, 'spec_chain': best})
    finally:
        sess.close()
        shutil.rmtree(store, ignore_errors=True)
    return res


def src_state(src):
    return src


# ------------------------------------------------------------------ ragged scenarios
def rspec_disk(st, sess):
    """abstract disk part of a Ragged spec state, in the units the projection uses"""
    def tails(t, half):
        return half if t else 0
    vhalf = (sess.cfg.rowbytes * sess.rc.block) // 2
    ihalf = sess_irowbytes(sess) // 2
    tr = st['treadme']
    return {'vrows': tuple(st['vrows']), 'vtail': tails(st['vtail'], vhalf), 'vdescr': dict(st['vdescr']),
            'vreadme': dict(st['vreadme']), 'irows': tuple(tuple(x) for x in st['irows']), 'itail': tails(st['itail'], ihalf),
            'idescr': dict(st['idescr']), 'ireadme': dict(st['ireadme']), 'tdescr': dict(st['tdescr']),
            'treadme': {'k': 'ok', 'n': tr['n'], 'listed': tuple(tuple(x) for x in tr['listed'])} if tr.get('k') == 'ok' else dict(tr)}


def sess_irowbytes(sess):
    return 2 * np.dtype(sess.rc.indextype).itemsize


def robs_disk(o):
    def norm(d):
        return {k: v for k, v in d.items() if k != 'why'} if isinstance(d, dict) else d
    return {'vrows': o['vrows'], 'vtail': o['vtail_bytes'], 'vdescr': norm(o['vdescr']), 'vreadme': norm(o['vreadme']),
            'irows': o['irows'], 'itail': o['itail_bytes'], 'idescr': norm(o['idescr']), 'ireadme': norm(o['ireadme']),
            'tdescr': norm(o['tdescr']), 'treadme': norm(o['treadme'])}


def rchains(g, node, limit=80):
    from .. import raggedmodel as rm
    out = []

    def rec(n, acc):
        s = g.nodes[n]
        acc.append(s)
        if rm.quiescent(s):
            out.append(list(acc))
        elif len(acc) < limit:
            for (_, _, m) in g.edges.get(n, []):
                rec(m, acc)
        acc.pop()
    rec(node, [])
    return out


def scenario_ragged(job):
    from .. import raggedmodel as rm
    gi, idx, cfgi = job
    g, mg, macros, binding = _CTX['graphs'][gi]
    m = macros[idx]
    src = mg.rep[m.src]
    sess = binding.make_session(cfgi, m)
    sess.plain_ints = True     # the write order of one call is studied here, not its argument forms
    store = tempfile.mkdtemp(prefix='darrcrashr_')
    res = {'gi': gi, 'idx': idx, 'label': m.label(), 'cfg': sess.describe(), 'viol': [], 'nonconf': [],
           'snaps': 0, 'variants': 0, 'opens': 0, 'opened_ok': 0, 'ragged': True}
    try:
        sess.materialize(src)
        first = None
        for (name, args, dst) in g.edges.get(_CTX['srcnode'][gi][m.src], []):
            if name == m.name and args == m.args:
                first = dst
        if first is None:
            raise Machinery('macro-edge not found in graph')
        pc = g.nodes[first]['pc']
        if pc.get('op') == 'idle':
            legit = {tuple(tuple(x) for x in src['ref']), tuple(tuple(x) for x in g.nodes[first]['ref'])}
        else:
            legit = {tuple(tuple(y) for y in x) for x in pc['legit']}
        sn = crash.Snapshots(sess.path, store)
        try:
            sn.run(lambda: sess.step(m.name, m.args))
        except am.Skip as e:
            res['skipped'] = str(e)
            return res
        res['snaps'] = len(sn.snaps)
        res['events'] = sn.events
        dirs = [d for (_, d) in sn.snaps]
        allv = []
        for i, (where, d) in enumerate(sn.snaps):
            allv.append((where, 'snapshot', d))
            if i > 0:
                for (rel, n, vd) in crash.torn_variants(dirs[i - 1], d, store, 'torn%03d' % i, inplace=sn.inplace_files(i)):
                    allv.append((where, 'torn %s to %d bytes' % (rel, n), vd))
        res['variants'] = len(allv) - len(sn.snaps)
        views = []
        for (where, what, d) in allv:
            save = sess.path
            sess.path = d
            try:
                o = sess.observe(reads=False)
            finally:
                sess.path = save
            res['opens'] += 1
            if what == 'snapshot':
                views.append(robs_disk(o))
            fr = o['fresh']
            rw = os.path.join(store, 'rwcopy')
            shutil.rmtree(rw, ignore_errors=True)
            shutil.copytree(d, rw, symlinks=True)
            try:
                hrw = sess.darr.RaggedArray(rw, accessmode='r+')
                rwsubs = tuple(sess._decode_item(hrw[k]) for k in range(len(hrw)))
                del hrw
                res['opens'] += 1
                if rwsubs not in legit:
                    res['viol'].append({'where': where, 'what': what + " (opened with accessmode='r+')",
                                        'opened_with_subarrays': rwsubs, 'legit': sorted(legit)})
            except Exception:
                pass
            if 'raises' in fr or 'error' in fr:
                continue
            res['opened_ok'] += 1
            if tuple(fr['subs']) not in legit:
                res['viol'].append({'where': where, 'what': what, 'opened_with_subarrays': fr['subs'],
                                    'legit': sorted(legit)})
        observed = dedup(views)
        ok, best = False, None
        for ch in rchains(g, first):
            sc = dedup([rspec_disk(src, sess)] + [rspec_disk(x, sess) for x in ch])
            if is_subsequence(observed, sc) and observed[-1] == sc[-1]:
                ok = True
                break
            best = sc
        if not ok:
            res['nonconf'].append({'observed': observed[:6], 'spec_chain': (best or [])[:6]})
    finally:
        sess.close()
        shutil.rmtree(store, ignore_errors=True)
    return res


def _unfreeze_map(x):
    if isinstance(x, tuple) and len(x) == 2 and x[0] == '#map':
        return {k: v for k, v in x[1]}
    if x == ():
        return {'k1': 0, 'k2': 0}
    return dict(x)


def _do(sess, m):
    out, exc = sess.step(m.name, m.args)
    return out


def _job(batch):
    out = []
    for j in batch:
        try:
            out.append(scenario_ragged(j) if _CTX['graphs'][j[0]][3].__class__.__name__ == 'RBinding' else scenario(j))
        except Exception:
            out.append({'error': traceback.format_exc(), 'job': j})
    return out


def run(tier, seed):
    from .arrayhist import Binding
    run = Run('C17', tier, seed, 'model_checking')
    thorough = tier == 'thorough'
    rnd = random.Random(seed)
    # 1. TLC: CrashSafe with crashes after every step, torn data writes, faults
    r1, _ = am.run_instance('C17_crash_data', invariants=['CrashSafe', 'TypeOK'], properties=(), dump=False,
                            Ops=['append', 'truncate'], Faults=True, Crashes=True, MaxRows=3 if thorough else 2,
                            InitLens=[0, 1], TruncArgs=[0, 1, -1], workers=16)
    tlc.check_coverage(r1, ['Crash', 'IA_WriteCrash', 'IA_RecTruncate', 'UL_JsonTrunc', 'TR_OsTruncate'], 'C17_crash_data')
    run.tlc('Array_crash_data', r1)
    r2, _ = am.run_instance('C17_crash_meta', invariants=['CrashSafe', 'TypeOK'], properties=(), dump=False,
                            Ops=['meta'], Crashes=True, MaxRows=1, InitLens=[1],
                            InitMetas=[{'k1': 0, 'k2': 0}, {'k1': 1, 'k2': 0}, {'k1': 2, 'k2': 1}], workers=16)
    tlc.check_coverage(r2, ['Crash', 'M_Trunc', 'M_Unlink', 'RM_Trunc'], 'C17_crash_meta')
    run.tlc('Array_crash_meta', r2)
    # 2. crash-free graphs whose macro-edges are the scenarios
    graphs = []
    ncfg = 52
    configs = pick_configs(ncfg, seed, thorough)
    big = [Config(c.numtype, c.byteorder, (65536 // c.dtype.itemsize,), 'native', 0, c.iterform) for c in configs[:26]]
    binding = Binding(configs, big)
    for name, over in (('data', dict(Ops=['append', 'truncate'], Faults=True, MaxRows=3, InitLens=[0, 1],
                                     TruncArgs=[0, 1, -1, 2])),
                       ('meta', dict(Ops=['meta'], MaxRows=1, InitLens=[1],
                                     InitMetas=[{'k1': 0, 'k2': 0}, {'k1': 1, 'k2': 0}, {'k1': 2, 'k2': 1}]))):
        r, g = am.run_instance('C17_graph_' + name, invariants=['TypeOK'], properties=(), **over)
        run.tlc('Array_graph_' + name, r)
        mg = walk.MacroGraph(g, am.quiescent)
        macros = [m for m in mg.all_macros() if m.name in ('IA_Call', 'TR_Call', 'M_Call', 'IA_CallBadAppend')
                  and mg.rep[m.src]['mode'] == 'r+']
        graphs.append((g, mg, macros, binding))
    # ragged arrays: CrashSafe on spec/Ragged.tla with crashes and faults; scenarios from its crash-free graph
    from .. import raggedmodel as rm
    from .raggedhist import Binding as _RB, edge_class as redge_class

    class RBinding(_RB):
        pass
    r3, _ = rm.run_instance('C17_crash_ragged', invariants=['CrashSafe', 'TypeOK'], properties=(), dump=False,
                            Ops=['append', 'truncate'], Faults=True, Crashes=True, MaxSub=3 if thorough else 2,
                            InitRefs=[(), ((2, 1), ())], TruncArgs=[0, 1, -1])
    tlc.check_coverage(r3, ['Crash', 'RA_WriteCrash', 'RA_IWriteCrash', 'RA_RollbackV', 'RT_IOsTruncate', 'UL_JsonTrunc'],
                       'C17_crash_ragged')
    run.tlc('Ragged_crash', r3)
    rr, rg = rm.run_instance('C17_graph_ragged', invariants=['TypeOK'], properties=(), Ops=['append', 'truncate'],
                             Faults=True, MaxSub=2, InitRefs=[(), ((2, 1), ())], TruncArgs=[0, 1, -1])
    run.tlc('Ragged_graph', rr)
    rmg = walk.MacroGraph(rg, rm.quiescent, forget=('out',))
    rmacros = [m for m in rmg.all_macros() if m.name in ('RA_Call', 'RT_Call', 'RA_CallBadAppend')
               and rmg.rep[m.src]['mode'] == 'r+']
    graphs.append((rg, rmg, rmacros, RBinding(rm.pick_rconfigs(ncfg, seed))))
    srcnode = []
    for (g, mg, macros, _) in graphs:
        mp_ = {}
        for n, k in mg.key_of.items():
            mp_.setdefault(k, n)
        srcnode.append(mp_)
    _CTX.update(graphs=graphs, srcnode=srcnode)
    jobs = []
    for gi, (g, mg, macros, _) in enumerate(graphs):
        idxs = list(range(len(macros)))
        if not thorough:
            # stratified sample: one or more per edge class
            rnd.shuffle(idxs)
            seen = {}
            keep = []
            ec = redge_class if gi == len(graphs) - 1 else edge_class
            for i in idxs:
                c = ec(macros[i], mg.rep[macros[i].src])
                if seen.get(c, 0) < 4:
                    seen[c] = seen.get(c, 0) + 1
                    keep.append(i)
            idxs = keep
        for i in idxs:
            cfgi = rnd.randrange(ncfg)
            if macros[i].name == 'M_Call' and i % 2 == 0:
                # metadata values whose JSON texts have equal length (a torn in-place rewrite would still parse)
                cfgi = 33 + rnd.randrange(6)
            jobs.append((gi, i, cfgi))
    batches = [jobs[i:i + 6] for i in range(0, len(jobs), 6)]
    results = []
    with mp.get_context('fork').Pool(16) as pool:
        for rr in pool.imap_unordered(_job, batches):
            results.extend(rr)
    nonconf = 0
    for r in results:
        if 'error' in r:
            raise Machinery('scenario failed: %s' % r['error'])
        if 'skipped' in r:
            run.add('skipped_unisolatable_faults')
            continue
        g, mg, macros, _ = graphs[r['gi']]
        m = macros[r['idx']]
        run.add('scenarios')
        run.add('crash_points', r['snaps'])
        run.add('torn_variants', r['variants'])
        run.add('opens', r['opens'])
        run.add('opened_successfully', r['opened_ok'])
        run.add('line_events', r.get('events', 0))
        for v in r['viol']:
            ecl = (redge_class if r.get('ragged') else edge_class)(m, mg.rep[m.src])
            sig = 'C17|%s%s|%s' % ('ragged|' if r.get('ragged') else '', ecl, v['what'].split(' to ')[0])
            run.violation(sig, {'scenario': r['label'], 'config': r['cfg'], **v},
                          {'kind': 'crash', 'from': mg.rep[m.src], 'name': m.name, 'args': m.args, 'config': r['cfg']})
        if r['nonconf']:
            nonconf += 1
            if nonconf <= 3:
                print('NONCONFORMANCE (write order differs from spec chain, not a violation by itself): %s %s'
                      % (r['label'], str(r['nonconf'][0])[:600]))
        if r['snaps'] > 2:
            run.sample({'scenario': r['label'], 'config': r['cfg'], 'crash_points': r['snaps'],
                        'torn_variants': r['variants']}, cap=4)
    run.cov['write_order_nonconformances'] = nonconf
    run.add('traces_validated_against_impl', run.cov.get('scenarios', 0))
    run.cov['evaluations'] = run.cov.get('opens', 0)
    run.cov['rule'] = ('scenario = public call from a quiescent spec state; crash point = distinct on-disk state between '
                       'two executed lines inside darr/ (sys.settrace); torn variant = one changed file cut to zero / '
                       'partial append / prefix of rewritten text; each is opened with the real darr.Array and must raise '
                       'or show a member of the spec\'s legit set')
    run.assumptions += ['a crash is a process death: what was write()n persists (no power-loss reordering)',
                        'line granularity of sys.settrace inside darr/ (effects inside one C call are one step)']
    if nonconf and os.environ.get('VERIF_STRICT_ORDER'):
        raise Machinery('%d scenarios whose observed write order is not a behaviour of the spec; the spec '
                        'must be brought in line with the code before its TLC result can be relied on' % nonconf)
    return run.finish()
