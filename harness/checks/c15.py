"""C15: copy() and archive() produce faithful, independent replicas.
spec/Copy.tla: two directories, copy then mutations on either side; TLC
checks Independent and Faithful; the graph is replayed on real Arrays and
RaggedArrays; archive cases come from the TLC-evaluated table ArchiveRows."""
import multiprocessing as mp
import os
import random
import shutil
import tarfile
import tempfile
import traceback
import warnings

import numpy as np

from .. import tlc, tlaparse, disk
from ..arraymodel import tlaval, classify
from ..common import Run, Machinery
from ..concretize import Config, NUMTYPES, BYTEORDERS, dtype_of, GARBAGE

warnings.simplefilter('ignore')
_CTX = {}
META = {'k': [1, {'n': [2.5, None, 'x ☃']}], 'fs': 20000}


def run_model():
    mod = 'MC_Copy'
    text = ('---- MODULE MC_Copy ----\nEXTENDS Copy\nc_ItemIds == {1, 2}\nc_InitItems == {<<>>, <<1>>, <<1, 2>>}\n'
            'c_InitMetas == {0, 1}\n====\n')
    cfg = ('SPECIFICATION Spec\nCONSTANTS\n ItemIds <- c_ItemIds\n MaxLen = 2\n InitItems <- c_InitItems\n'
           ' InitMetas <- c_InitMetas\nPROPERTY Independent\nPROPERTY Faithful\n')
    wd = tlc.workdir()
    with open(os.path.join(wd, mod + '.tla'), 'w') as f:
        f.write(text)
    dumpf = os.path.join(wd, 'copy_graph')
    r = tlc.run(mod, cfg, wd=wd, workers=8, dump=dumpf, timeout=600)
    tlc.must_pass(r, mod)
    tlc.check_coverage(r, ['CopyAB', 'MutA', 'MutB'], mod)
    return r, tlaparse.dot(dumpf + '.dot')


class Pair:
    """the real source and copy"""

    def __init__(self, kind, cfgi, seed):
        import darr
        self.darr = darr
        self.kind = kind
        j = cfgi * 17 + seed
        self.nt, self.bo = NUMTYPES[j % 13], BYTEORDERS[(j // 13) % 2]
        self.tail = [(), (2,), (3, 2), (1,)][(j // 3) % 4]
        self.dst = dtype_of(NUMTYPES[(j // 5) % 13], BYTEORDERS[(j // 7) % 2])
        sk, dk = np.dtype(self.nt).kind, self.dst.kind
        valset = (j // 11) % 5
        if (dk in 'iu' and sk in 'fc') or (sk == 'c' and dk != 'c'):
            valset = 0
        self.cfg = Config(self.nt, self.bo, self.tail, 'native', valset)
        # rows must stay distinguishable after the cast to the target type
        for vs in (valset, 0):
            self.cfg = Config(self.nt, self.bo, self.tail, 'native', vs)
            with np.errstate(all='ignore'):
                cast = {np.ascontiguousarray(self.cfg.row(r)).astype(self.dst).tobytes() for r in (1, 2, 3, 4)}
            if len(cast) == 4:
                break
        self.root = tempfile.mkdtemp(prefix='darrc15_')
        self.pa, self.pb = os.path.join(self.root, 'a.darr'), os.path.join(self.root, 'b.darr')
        self.a = self.b = None
        self.bdtype = None

    def describe(self):
        return {'kind': self.kind, 'numtype': self.nt, 'byteorder': self.bo, 'tail': self.tail,
                'dst_dtype': self.dst.str, 'valset': self.cfg.valset}

    def close(self):
        self.a = self.b = None
        shutil.rmtree(self.root, ignore_errors=True)

    # items: Array rows are ids; ragged subarray 1 = rows (1, 2), subarray 2 = empty
    def sub(self, v):
        return (1, 2) if v == 1 else ()

    def item_array(self, v, dtype):
        if self.kind == 'array':
            return self.cfg.rows_array((v,)).astype(dtype)
        return self.cfg.rows_array(self.sub(v)).astype(dtype)

    def materialize(self, st):
        items, meta = st['a']['items'], st['a']['meta']
        md = dict(META) if meta else None
        dt = self.cfg.dtype
        if self.kind == 'array':
            self.a = self.darr.asarray(self.pa, self.cfg.rows_array(tuple(items)).astype(dt), accessmode='r+',
                                       metadata=md)
        else:
            if len(items) == 0:
                self.a = self.darr.create_raggedarray(self.pa, atom=self.tail, dtype=dt, metadata=md, accessmode='r+')
            else:
                self.a = self.darr.asraggedarray(self.pa, [self.item_array(v, dt) for v in items], dtype=dt,
                                                 metadata=md, accessmode='r+')

    def step(self, name, args):
        exc = None
        try:
            if name == 'CopyAB':
                dt, c = args
                kw = {'dtype': None if dt == 'same' else self.dst, 'accessmode': 'r+'}
                if self.kind == 'array':
                    kw['chunklen'] = None if c == 0 else c
                self.b = self.a.copy(self.pb, **kw)
            else:
                op, v = args
                x = self.a if name == 'MutA' else self.b
                if op == 'append':
                    x.append(self.item_array(v, self.cfg.numtype))
                elif op == 'truncate':
                    (self.darr.truncate_array if self.kind == 'array' else self.darr.truncate_raggedarray)(x, len(x) - 1)
                elif op == 'set':
                    x[0] = self.cfg.row(v)
                elif op == 'meta':
                    if len(x.metadata):
                        for k in list(x.metadata.keys()):
                            x.metadata.pop(k)
                    else:
                        x.metadata.update(META)
                elif op == 'delete':
                    (self.darr.delete_array if self.kind == 'array' else self.darr.delete_raggedarray)(x)
        except Exception as e:   # noqa
            return classify(e), repr(e)[:300]
        return classify(exc), exc

    def view(self, path, dtype):
        """what a directory holds: items (ids), dtype, metadata - via a fresh handle"""
        if not os.path.exists(path):
            return {'ex': False}
        o = {'ex': True}
        try:
            h = self.darr.open(path)
            o['dtype'] = h.dtype.str
            table = {}
            for r in (1, 2, 3, 4):
                table[np.ascontiguousarray(self.cfg.row(r)).astype(dtype).tobytes()] = r

            def dec(arr):
                return tuple(table.get(np.ascontiguousarray(arr[i:i + 1]).tobytes(), GARBAGE) for i in range(len(arr)))
            if self.kind == 'array':
                o['items'] = dec(h[:])
            else:
                subs = [dec(h[k]) for k in range(len(h))]
                o['items'] = tuple(1 if s == (1, 2) else (2 if s == () else GARBAGE) for s in subs)
            o['meta'] = dict(h.metadata)
        except Exception as e:
            o['error'] = repr(e)[:200]
        return o


def compare(exp, obs, dtype, what):
    mm = []
    if not exp['ex']:
        if obs['ex']:
            mm.append((what, 'deleted', 'still exists'))
        return mm
    if not obs['ex']:
        return [(what, 'exists', 'missing')]
    if 'error' in obs:
        return [(what, 'opens', obs['error'])]
    if obs['items'] != tuple(exp['items']):
        mm.append((what + ' contents', exp['items'], obs['items']))
    if np.dtype(obs['dtype']) != np.dtype(dtype) and np.dtype(dtype).itemsize > 1:
        mm.append((what + ' dtype', np.dtype(dtype).str, obs['dtype']))
    if np.dtype(obs['dtype']).name != np.dtype(dtype).name:
        mm.append((what + ' dtype', np.dtype(dtype).name, obs['dtype']))
    em = META if exp['meta'] else {}
    if obs['meta'] != em:
        mm.append((what + ' metadata', em, obs['meta']))
    return mm


def _job(batch):
    g = _CTX['g']
    out = []
    for (i, kind, path, cfgi, seed) in batch:
        res = {'i': i, 'kind': kind, 'steps': 0}
        try:
            p = Pair(kind, cfgi, seed)
            res['cfg'] = p.describe()
            try:
                node = path[0][0]
                p.materialize(g.nodes[node])
                for (src, (name, args, dst)) in path:
                    if kind == 'ragged' and name != 'CopyAB' and args[0] == 'set':
                        break
                    o, exc = p.step(name, args)
                    st = g.nodes[dst]
                    res['steps'] += 1
                    bdt = p.cfg.dtype if st['b'].get('dt', 'src') == 'src' else p.dst
                    mm = []
                    if (st['out'] == 'ok') != (o == 'ok'):
                        mm.append(('outcome', st['out'], o + (': ' + str(exc)[:150] if exc else '')))
                    mm += compare(st['a'], p.view(p.pa, p.cfg.dtype), p.cfg.dtype, 'source')
                    mm += compare(st['b'], p.view(p.pb, bdt), bdt, 'copy')
                    if mm:
                        res['mism'] = mm
                        res['at'] = '%s(%s)' % (name, ', '.join(str(x) for x in args))
                        res['from'] = {'a': g.nodes[src]['a'], 'b': g.nodes[src]['b']}
                        break
            finally:
                p.close()
        except Exception:
            res['error'] = traceback.format_exc()
        out.append(res)
    return out


def archive_case(row, seed, idx):
    import darr
    root = tempfile.mkdtemp(prefix='darrc15a_')
    bad = []
    try:
        nt = NUMTYPES[(idx + seed) % 13]
        d = os.path.join(root, 'data.darr')
        if row['kind'] == 'Array':
            x = darr.asarray(d, (np.arange(12).reshape(4, 3) + 1).astype(nt), metadata=dict(META))
            expect = x[:]
        else:
            x = darr.asraggedarray(d, [np.arange(3).astype(nt), np.zeros(0, nt), np.arange(2).astype(nt)],
                                   metadata=dict(META))
            expect = [x[k] for k in range(len(x))]
        fp = os.path.join(root, 'out', 'my archive.tar.%s' % row['comp']) if row['given'] else None
        if fp:
            os.mkdir(os.path.join(root, 'out'))
        target = fp or (d + '.tar.' + row['comp'])
        if row['preexisting']:
            with open(target, 'wb') as f:
                f.write(b'previous archive, not to be lost')
        before = disk.snapshot(d)
        try:
            ret = x.archive(filepath=fp, compressiontype=row['comp'], overwrite=row['overwrite'])
            got = 'ok'
        except Exception as e:
            got = 'Raises'
            ret = None
        if disk.snapshot(d) != before:
            bad.append(('array directory', 'unchanged by archive()', 'changed'))
        if got != row['out']:
            bad.append(('outcome', row['out'], got))
        elif got == 'Raises':
            if open(target, 'rb').read() != b'previous archive, not to be lost':
                bad.append(('existing archive', 'untouched', 'modified'))
        else:
            if str(ret) != str(target) or not os.path.isfile(target):
                bad.append(('returned path', target, str(ret)))
            else:
                ex = os.path.join(root, 'extract')
                with tarfile.open(target, 'r:' + row['comp']) as tf:
                    tf.extractall(ex)
                got_snap = disk.snapshot(os.path.join(ex, 'data.darr'))
                if got_snap != before:
                    bad.append(('extracted tree', 'byte-identical to the array directory',
                                disk.snapdiff(before, got_snap)[:3]))
                else:
                    y = darr.open(os.path.join(ex, 'data.darr'))
                    if row['kind'] == 'Array':
                        same = y[:].tobytes() == expect.tobytes() and y.dtype == x.dtype
                    else:
                        same = len(y) == len(expect) and all(y[k].tobytes() == expect[k].tobytes() for k in range(len(y)))
                    if not same or dict(y.metadata) != META:
                        bad.append(('extracted array', 'equal to the archived one', 'different'))
    finally:
        shutil.rmtree(root, ignore_errors=True)
    return bad


def run(tier, seed):
    run = Run('C15', tier, seed, 'model_checking')
    thorough = tier == 'thorough'
    rnd = random.Random(seed)
    r, g = run_model()
    run.tlc('Copy', r)
    _CTX['g'] = g
    # paths: every edge reached through a shortest prefix from an initial state
    parent = {}
    order = []
    for n in g.init:
        parent[n] = None
        order.append(n)
    for n in order:
        for e in g.edges.get(n, []):
            if e[2] not in parent:
                parent[e[2]] = (n, e)
                order.append(e[2])

    def path_to(n):
        p = []
        while parent[n] is not None:
            m, e = parent[n]
            p.append((m, e))
            n = m
        return p[::-1]
    paths = []
    covered = set()
    alledges = [(n, e) for n in order for e in g.edges.get(n, [])]
    rnd.shuffle(alledges)
    for (n, e) in alledges:
        key = (n, e[0], tuple(e[1]), e[2])
        if key in covered:
            continue
        p = path_to(n) + [(n, e)]
        node = e[2]
        for _ in range(4):
            nxt = [x for x in g.edges.get(node, []) if (node, x[0], tuple(x[1]), x[2]) not in covered]
            if not nxt:
                break
            x = rnd.choice(nxt)
            p.append((node, x))
            node = x[2]
        for (m, x) in p:
            covered.add((m, x[0], tuple(x[1]), x[2]))
        if not p:
            continue
        paths.append(p)
        if len(paths) >= (4000 if thorough else 1200):
            break
    run.add('graph_edges', len(alledges))
    run.add('edges_covered', len(covered))
    jobs = []
    reps = 4 if thorough else 1
    for rep in range(reps):
        for i, p in enumerate(paths):
            for kind in ('array', 'ragged'):
                jobs.append((len(jobs), kind, p, rnd.randrange(10 ** 6), seed))
    batches = [jobs[i:i + 10] for i in range(0, len(jobs), 10)]
    results = []
    with mp.get_context('fork').Pool(16) as pool:
        for rr in pool.imap_unordered(_job, batches):
            results.extend(rr)
    for res in results:
        if 'error' in res:
            raise Machinery('copy replay failed: ' + res['error'])
        run.add('paths_replayed')
        run.add('steps_replayed', res['steps'])
        if 'mism' in res:
            first = res['mism'][0][0]
            srcstate = res['from']
            empty = 'empty-source' if len(srcstate['a'].get('items', ())) == 0 else 'nonempty'
            sig = 'C15|copy|%s|%s|%s|%s' % (res['kind'], res['at'].split('(')[0], empty, first)
            if res['at'].startswith('CopyAB("dst"') and 'dtype' in first:
                sig += '|dtype'
            if empty == 'empty-source':
                sig += '|empty'
            run.violation(sig, res, {'kind': 'copy', 'case': res})
    # archives
    ra = tlc.table('Archive', 'ArchiveRows', name='archive')
    for i, row in enumerate(ra.rows):
        bad = archive_case(row, seed, i)
        run.add('archive_cases')
        if bad:
            run.violation('C15|archive|%s|%s|pre=%s|ow=%s|%s' % (row['kind'], row['comp'], row['preexisting'],
                                                              row['overwrite'], bad[0][0]),
                          {'case': row, 'problems': bad}, {'kind': 'archive', 'case': row})
    run.add('traces_validated_against_impl', len(results) + len(ra.rows))
    for res in results[:2]:
        run.sample({'kind': res['kind'], 'cfg': res.get('cfg'), 'steps': res['steps']})
    run.sample(ra.rows[0])
    run.cov['rule'] = ('paths of the TLC graph of spec/Copy.tla (copy with dtype None / a target type and chunklen None/1/2 '
                       'from sources of length 0-2 with and without metadata, then append/truncate/assign/metadata/delete on '
                       'either side) replayed on Arrays and RaggedArrays (zero-length subarrays, ragged arrays without '
                       'subarrays) with rotating source/target types; both directories are re-read after every step; '
                       'archive cases (kind x compression x overwrite x pre-existing x given path) from the TLC table '
                       'ArchiveRows: extraction compared byte for byte and reopened')
    run.assumptions += ['NumPy is the reference for astype(dtype); casts of NaN/inf to integers are not exercised']
    return run.finish()
