from . import arrayhist


def run(tier, seed):
    return arrayhist.run_check('C03', tier, seed, 'data+ctx')
