"""C06: generated read code for Arrays denotes the stored array in every
language.  Foreign-language snippets are lowered by strict front ends to read
plans whose meaning is judged by TLC with spec/ReadCode.tla; the documented
compatibility table is the TLC table OfferedRows; Python-family snippets are
executed in a subprocess against real arrays with a byte snapshot around."""
import json
import os
import shutil
import subprocess
import sys
import tempfile
import warnings

import numpy as np
from pathlib import Path

from .. import tlc, disk
from .. import readcode_fe as fe
from ..common import Run, Machinery
from ..concretize import NUMTYPES, BYTEORDERS, dtype_of

warnings.simplefilter('ignore')
SHAPES = [(5,), (1,), (3, 2), (1, 4), (4, 1), (2, 3, 4), (2, 1, 3), (3, 2, 1), (2, 3, 1, 2), (2, 3, 4, 5)]
EMPTY = [(0,), (0, 2)]
PYFAMILY = ['darr', 'numpy', 'numpymemmap', 'python']

RUNNER = r'''
import sys, json, os, hashlib, traceback
import numpy as np
jobs = json.load(open(sys.argv[1]))
out = []
def fp(d):
    o = {}
    for fn in sorted(os.listdir(d)):
        p = os.path.join(d, fn)
        if os.path.isfile(p):
            o[fn] = hashlib.sha256(open(p, 'rb').read()).hexdigest()
    return o
for j in jobs:
    os.chdir(j['cwd'])
    ns = {}
    r = {'id': j['id']}
    before = fp(j['cwd'])
    try:
        exec(j['code'], ns)
        if j['lang'] == 'python' and j['complex']:
            re_, im_ = ns['real'], ns['imag']
            a = np.array(re_) + 1j * np.array(im_)
            r['kind'] = 'complexparts'
        else:
            a = ns['a']
            if j['lang'] == 'darr':
                a = a[:]
            elif j['lang'] == 'python':
                a = np.array(a)
        a = np.asarray(a)
        r['shape'] = list(a.shape)
        r['dtype'] = a.dtype.str
        r['values'] = [repr(complex(x)) if a.dtype.kind == 'c' else repr(float(x)) if a.dtype.kind == 'f' else int(x)
                       for x in a.flatten()[:400]]
        del a
        ns.clear()
    except Exception as e:
        r['error'] = '%s: %s' % (type(e).__name__, str(e)[:200])
    import gc
    gc.collect()
    after = fp(j['cwd'])
    r['changed'] = sorted(k for k in set(before) | set(after) if before.get(k) != after.get(k))
    out.append(r)
json.dump(out, open(sys.argv[2], 'w'))
'''


def values(nt, shape):
    n = int(np.prod(shape))
    rnd = np.random.RandomState(abs(hash((nt, shape))) % (2 ** 31))
    dt = np.dtype(nt)
    if dt.kind in 'iu':
        ii = np.iinfo(dt)
        span = min(int(ii.max), 10 ** 6)
        vals = [int(x) % span + 1 for x in rnd.permutation(max(n * 3, 8))[:n] * 7 + 3]
        if len(set(vals)) != len(vals):
            vals = list(range(1, n + 1))
        if n > 2:
            vals[0], vals[1] = int(ii.min), int(ii.max)
        v = np.array(vals, dtype=dt) if n else np.zeros(0, dt)
    elif dt.kind == 'f':
        v = (rnd.permutation(n * 4)[:n] * 0.25 - n / 2).astype(dt)
    else:
        v = ((rnd.permutation(n * 4)[:n] * 0.5) + 1j * (rnd.permutation(n * 4)[:n] * 0.25 - 3)).astype(dt)
    return v.reshape(shape)


def run(tier, seed):
    import darr
    run = Run('C06', tier, seed, 'model_checking')
    thorough = tier == 'thorough'
    root = tempfile.mkdtemp(prefix='darrc06_')
    try:
        offered = tlc.table('ReadCode', 'OfferedRows', name='offered')
        off = {(r['lang'], r['numtype'], r['ndim']): r['offered'] for r in offered.rows}
        langs = sorted({r['lang'] for r in offered.rows})
        plans = []          # (id, plan, stored)
        pyjobs = []
        expected = {}
        nprog = 0
        shapes = SHAPES if thorough else SHAPES[:9]
        arrays = []
        for nt in NUMTYPES:
            for bo in BYTEORDERS:
                for shape in shapes + EMPTY:
                    d = os.path.join(root, '%s_%s_%s' % (nt, bo, 'x'.join(map(str, shape))))
                    ref = values(nt, shape).astype(dtype_of(nt, bo))
                    if len(arrays) % 3 == 1 and shape[0] >= 2:
                        # content reached through a history on one handle with code generated in between
                        a = darr.asarray(d, ref[:-1], accessmode='r+')
                        for lang in langs:
                            a.readcode(lang)
                            a.readcode(lang, abspath=True)
                        a.append(ref[-1:])
                    else:
                        a = darr.asarray(d, ref)
                    arrays.append((a, d, nt, bo, shape, ref))
        for (a, d, nt, bo, shape, ref) in arrays:
            empty = 0 in shape
            got_langs = []
            for lang in langs:
                code = a.readcode(lang)
                if code is not None:
                    got_langs.append(lang)
                if empty:
                    # the property speaks of arrays with at least one element; for empty ones only
                    # "running the code never changes any file" (Python family, below)
                    if code is not None and lang in PYFAMILY:
                        pyjobs.append({'id': len(pyjobs), 'lang': lang, 'cwd': d, 'code': code.replace("path_to_data_dir", d),
                                       'complex': nt.startswith('complex')})
                        expected[len(pyjobs) - 1] = (None, d, lang, nt, bo, shape)
                    continue
                want = off[(lang, nt, len(shape))]
                run.add('offer_decisions')
                if (code is not None) != want:
                    run.violation('C06|offered|%s|%s' % (lang, nt),
                                  {'language': lang, 'numtype': nt, 'ndim': len(shape),
                                   'documented': 'offered' if want else 'withheld',
                                   'readcode': 'returns code' if code is not None else 'returns None'},
                                  {'kind': 'offered'})
                    continue
                if code is None:
                    continue
                nprog += 1
                # path modes
                modes = [('relative', {}, 'arrayvalues.bin'), ('basepath', {'basepath': 'base/dir'}, 'base/dir/arrayvalues.bin'),
                         ('abspath', {'abspath': True}, os.path.realpath(os.path.join(d, 'arrayvalues.bin')))]
                for mname, kw, wantpath in modes:
                    c2 = a.readcode(lang, **kw)
                    run.add('programs')
                    if lang in fe.PARSERS:
                        try:
                            pl = fe.PARSERS[lang](c2)
                        except fe.NotWellFormed as e:
                            run.violation('C06|notwellformed|%s|%s|ndim=%d' % (lang, 'complex' if nt.startswith('complex') else 'real', min(len(shape), 3)),
                                          {'language': lang, 'numtype': nt, 'byteorder': bo, 'shape': shape, 'path_mode': mname,
                                           'reason': str(e), 'code': c2}, {'kind': 'readcode', 'code': c2})
                            break
                        if pl['path'] != wantpath:
                            run.violation('C06|path|%s|%s' % (lang, mname),
                                          {'language': lang, 'path_mode': mname, 'expected_path': wantpath,
                                           'path_in_code': pl['path'], 'code': c2}, {'kind': 'readcode-path'})
                        if mname == 'relative':
                            plans.append((len(plans), pl, (nt, bo, shape), c2))
                    else:
                        # Python family: the path must appear in the code (darr uses a placeholder directory)
                        if lang != 'darr' and ("'%s'" % wantpath) not in c2:
                            run.violation('C06|path|%s|%s' % (lang, mname),
                                          {'language': lang, 'path_mode': mname, 'expected_path': wantpath, 'code': c2},
                                          {'kind': 'readcode-path'})
                        if mname == 'relative':
                            pyjobs.append({'id': len(pyjobs), 'lang': lang, 'cwd': d,
                                           'code': c2.replace("path_to_data_dir", d), 'complex': nt.startswith('complex')})
                            expected[len(pyjobs) - 1] = (ref, d, lang, nt, bo, shape)
            if not empty:
                if tuple(a.readcodelanguages) != tuple(sorted(got_langs)):
                    run.violation('C06|readcodelanguages', {'numtype': nt, 'shape': shape, 'readcodelanguages': a.readcodelanguages,
                                                           'languages_with_code': sorted(got_langs)}, {'kind': 'langs'})
        # ---- arrays opened by RELATIVE paths, the working directory changing between them: the absolute path in
        # the code is that of the array's own data file (same relative text, other directory, same process)
        cwd0 = os.getcwd()
        try:
            bases = [os.path.join(root, 'cwdA'), os.path.join(root, 'cwdB'), os.path.join(root, 'cwdC')]
            rel = os.path.join('data', 'arr.darr')
            for k, base in enumerate(bases):
                os.makedirs(os.path.join(base, 'data'))
                os.chdir(base)
                nt = ['int32', 'float64', 'uint8'][k]
                ra = darr.asarray(rel, values(nt, (3, 2)).astype(dtype_of(nt, BYTEORDERS[k % 2])))
                handles = [ra, darr.Array(rel), darr.Array(Path(rel))]
                wantpath = os.path.realpath(os.path.join(base, rel, 'arrayvalues.bin'))
                for h in handles:
                    for lang in langs:
                        c2 = h.readcode(lang, abspath=True)
                        if c2 is None or lang == 'darr':
                            continue
                        run.add('programs')
                        if lang in fe.PARSERS:
                            try:
                                got = fe.PARSERS[lang](c2)['path']
                            except fe.NotWellFormed as e:
                                got = 'not well-formed: %s' % e
                            okp = got == wantpath
                        else:
                            got, okp = None, ("'%s'" % wantpath) in c2
                        if not okp:
                            run.violation('C06|path|%s|abspath of a relative-path array after chdir' % lang,
                                          {'language': lang, 'cwd': base, 'array_path': rel, 'expected_path': wantpath,
                                           'path_in_code': got, 'code': c2}, {'kind': 'readcode-path-cwd'})
        finally:
            os.chdir(cwd0)
        # ---- TLC judges the plans
        if plans:
            defs = 'Plans == {\n' + ',\n'.join(
                '[p |-> %s, st |-> [numtype |-> "%s", bo |-> "%s", shape |-> <<%s>>]]'
                % (fe.plan_to_tla(pl, pid), st[0], st[1], ', '.join(map(str, st[2]))) for pid, pl, st, _ in plans) + '}'
            r = tlc.table('ReadCode', '{[id |-> x.p.id, verdict |-> FailClause(x.p, x.st)] : x \\in Plans}', defs=defs,
                          name='plans', heap='8g', timeout=1500)
            run.add('states', len(r.rows))
            run.add('transitions', len(r.rows))
            verdict = {x['id']: x['verdict'] for x in r.rows}
            for pid, pl, st, code in plans:
                run.add('plans_judged_by_tlc')
                v = verdict.get(pid)
                if v != 'ok':
                    run.violation('C06|plan|%s|%s|%s' % (pl['lang'], v, 'complex' if st[0].startswith('complex') else st[0]),
                                  {'language': pl['lang'], 'stored': st, 'failing_clause': v, 'plan': pl, 'code': code},
                                  {'kind': 'readcode', 'code': code})
        # ---- Python family: execute
        before = {}
        for j in pyjobs:
            before.setdefault(j['cwd'], disk.snapshot(j['cwd']))
        jf, of = os.path.join(root, 'jobs.json'), os.path.join(root, 'out.json')
        with open(os.path.join(root, 'runner.py'), 'w') as f:
            f.write(RUNNER)
        json.dump(pyjobs, open(jf, 'w'))
        env = dict(os.environ)
        pr = subprocess.run([sys.executable, '-W', 'ignore', os.path.join(root, 'runner.py'), jf, of], env=env,
                            stdout=subprocess.PIPE, stderr=subprocess.STDOUT, text=True, timeout=900)
        if not os.path.exists(of):
            raise Machinery('snippet runner failed: ' + pr.stdout[-1500:])
        res = {r['id']: r for r in json.load(open(of))}
        for jid, (ref, d, lang, nt, bo, shape) in expected.items():
            r = res[jid]
            run.add('python_family_executions')
            if r.get('changed'):
                run.violation('C06|modifies|%s|%s' % (lang, 'empty' if 0 in shape else 'nonempty'),
                              {'language': lang, 'numtype': nt, 'shape': shape, 'changed_files': r['changed'],
                               'code': pyjobs[jid]['code']}, {'kind': 'readcode-exec'})
            if ref is None:
                continue
            if 'error' in r:
                run.violation('C06|exec|%s|error' % lang, {'language': lang, 'numtype': nt, 'shape': shape, 'error': r['error'],
                                                         'code': pyjobs[jid]['code']}, {'kind': 'readcode-exec'})
                continue
            flat = ref.flatten()[:400]
            want = [repr(complex(x)) if ref.dtype.kind == 'c' else repr(float(x)) if ref.dtype.kind == 'f' else int(x)
                    for x in flat]
            if r['values'] != want or (lang != 'python' and tuple(r['shape']) != tuple(shape)):
                run.violation('C06|exec|%s|values' % lang, {'language': lang, 'numtype': nt, 'byteorder': bo, 'shape': shape,
                                                          'got_shape': r['shape'], 'code': pyjobs[jid]['code']},
                              {'kind': 'readcode-exec'})
        run.cov['programs_distinct'] = nprog
        run.cov['distinct_nontrivial'] = nprog
        run.add('traces_validated_against_impl', len(plans) + len(pyjobs))
        run.cov['exhaustive'] = True
        if plans:
            run.sample({'plan': plans[0][1], 'stored': plans[0][2]})
            run.sample({'code': plans[len(plans) // 2][3]})
    finally:
        shutil.rmtree(root, ignore_errors=True)
    run.cov['rule'] = ('every program: 13 types x 2 byte orders x shapes of rank 1-4 (pairwise distinct extents, length-1 axes) '
                       'x 12 languages x 3 path modes; foreign-language snippets parsed by strict front ends to read plans, '
                       'judged by TLC with Correct/FailClause of spec/ReadCode.tla (element type, byte order, count, '
                       'dimensions, offset of every index tuple); offered/withheld against the TLC table OfferedRows and '
                       'readcodelanguages; Python-family snippets executed in a subprocess with a byte snapshot of the '
                       'directory, also for empty arrays')
    run.assumptions += ['no R/Octave/Julia/Scilab/GDL/Mathematica/Maple interpreter exists in the sandbox: for those languages '
                        '"well-formed" means accepted by the strict front end and the semantics are the transcription in '
                        'spec/ReadCode.tla (trusted)']
    return run.finish()
