"""C13: metadata behaves as a dictionary persisted to metadata.json.
Array: graph walk + trace validation (arrayhist).  RaggedArray: the same
metadata macro-edges of spec/Array.tla replayed on ragged arrays.  Creation:
the TLC table of spec/MetaCreate.tla (file exists iff metadata non-empty)."""
import json
import os
import shutil
import tempfile

import numpy as np

from . import arrayhist
from .. import arraymodel as am
from .. import tlc, walk, tour, disk
from ..common import Run, Machinery


class RaggedMetaSess(arrayhist.Sess):
    """metadata of a RaggedArray driven by the M_* labels of spec/Array.tla"""

    def materialize(self, st):
        if os.path.exists(self.path):
            shutil.rmtree(self.path)
        md = self.mdict(am._asmap(st['refmeta']))
        items = [np.arange(3, dtype='int16'), np.zeros(0, 'int16')]
        try:
            self.a = self.darr.asraggedarray(self.path, items, metadata=md or None, accessmode=st['mode'])
        except Exception as e:
            raise am.ImplFailure('asraggedarray(metadata=%r) failed: %r' % (md, e)) from None
        if st.get('mmode', st['mode']) != st['mode']:
            self.a.metadata.accessmode = st['mmode']

    def do_Reopen(self, m):
        self.a = self.darr.RaggedArray(self.path, accessmode=m)

    def observe(self):
        o = {'exists': True}
        ms, meta = disk.read_json(os.path.join(self.path, 'metadata.json'))
        if ms == 'absent':
            o['meta'] = {'k': 'absent'}
        elif ms == 'torn' or not isinstance(meta, dict):
            o['meta'] = {'k': 'torn'}
        else:
            m = {'k1': 0, 'k2': 0}
            for kk, vv in meta.items():
                if kk in self.rkeys:
                    m[self.rkeys[kk]] = self.mabs(vv)
            o['meta'] = {'k': 'ok', 'd': m}
        md = self.a.metadata
        try:
            dd = dict(md)
            lm = {'k1': 0, 'k2': 0}
            for kk, vv in dd.items():
                if kk in self.rkeys:
                    lm[self.rkeys[kk]] = self.mabs(vv)
            agree = (len(md) == len(dd) and sorted(md.keys()) == sorted(dd.keys()) and all(k in md for k in dd)
                     and all(am.canon(md[k]) == am.canon(dd[k]) for k in dd) and md.get('#nokey', 5) == 5
                     and all(am.canon(md.get(k, '#default')) == am.canon(dd[k]) for k in dd))
            o['livemeta'] = {'d': lm, 'accessors_agree': agree, 'n': len(dd)}
        except Exception as e:
            o['livemeta'] = {'error': repr(e)}
        try:
            fm = {'k1': 0, 'k2': 0}
            for kk, vv in dict(self.darr.RaggedArray(self.path).metadata).items():
                if kk in self.rkeys:
                    fm[self.rkeys[kk]] = self.mabs(vv)
            o['fresh'] = {'meta': fm}
        except Exception as e:
            o['fresh'] = {'meta_error': repr(e)}
        o['live'] = {'mode': self.a.accessmode, 'mmode': md.accessmode}
        return o


class RBinding(arrayhist.Binding):
    ALL = ('C13',)

    def make_session(self, cfgi, m, path=None):
        cfg = self.configs[cfgi % len(self.configs)]
        return RaggedMetaSess(cfg, metaset=cfgi, keyset=cfgi // 5)

    def before(self, sess, m):
        return None


def ragged_metadata(run, tier, seed):
    from ..concretize import pick_configs
    r, g = am.run_instance('C13_rmeta', invariants=['Meta_Model', 'TypeOK'], properties=(), Ops=['meta', 'mode', 'metamode'],
                           InitModes=['r+'], MaxRows=1, InitLens=[1],
                           InitMetas=[{'k1': 0, 'k2': 0}, {'k1': 1, 'k2': 0}, {'k1': 2, 'k2': 1}])
    run.tlc('Array_meta_for_ragged', r)
    mg = walk.MacroGraph(g, am.quiescent)
    configs = pick_configs(27, seed)
    b = RBinding(configs, configs)
    sel = lambda m: m.name in ('M_Call', 'SetMode', 'SetMetaMode')
    macros, res = tour.edge_tour(b, mg, ['C13'], 27, per_edge=(2 if tier == 'thorough' else 1), seed=seed, select=sel)
    for x in res:
        if 'error' in x and 'mism' not in x:
            raise Machinery('ragged metadata replay failed: ' + x['error'])
        run.add('ragged_metadata_edge_replays')
        mm = x.get('mism', {}).get('C13')
        if mm and mm[0][0] == 'create_start_state':
            run.violation('C13|ragged|create_start_state', {'mismatch': mm}, {'kind': 'ragged-meta-start', 'failure': mm[0][1]})
        elif mm:
            m = macros[x['idx']]
            src = mg.rep[m.src]
            run.violation('C13|ragged|%s|%s' % (arrayhist.edge_class(m, src), mm[0][0]),
                          {'edge': m.label(), 'from_meta': src['refmeta'], 'mismatch': mm, 'out': x.get('out'),
                           'exc': x.get('exc')}, {'kind': 'ragged-meta-edge', 'name': m.name, 'args': m.args})
    run.add('traces_validated_against_impl', len(res))


GIVEN = {'k': [1, {'n': None}], 'x': 2.5}


def creation_cases(run, seed):
    import darr
    rows = tlc.table('MetaCreate', 'Rows', name='metacreate').rows
    run.add('states', len(rows))
    run.add('transitions', len(rows))
    for row in rows:
        root = tempfile.mkdtemp(prefix='darrc13c_')
        try:
            p = os.path.join(root, 'new')
            occ = row['occupant']
            ragged_creator = row['creator'] in ('asraggedarray', 'create_raggedarray', 'copy_ragged')
            if occ != 'free':
                omd = {'old': 1} if occ == 'hasmeta' else None
                if ragged_creator:
                    darr.asraggedarray(p, [[9], [8, 7]], metadata=omd)
                else:
                    darr.asarray(p, [9, 8, 7], metadata=omd)
            md = {'none': None, 'empty': {}, 'some': dict(GIVEN)}[row['given']]
            ow = occ != 'free'
            c = row['creator']
            if c == 'asarray':
                x = darr.asarray(p, [1, 2], metadata=md, overwrite=ow)
            elif c == 'create_array':
                x = darr.create_array(p, shape=(2,), metadata=md, overwrite=ow)
            elif c == 'asraggedarray':
                x = darr.asraggedarray(p, [[1], [2, 3]], metadata=md, overwrite=ow)
            elif c == 'create_raggedarray':
                x = darr.create_raggedarray(p, metadata=md, overwrite=ow)
            elif c == 'copy_array':
                src = darr.asarray(os.path.join(root, 'src'), [1, 2], metadata=md if md else None)
                x = src.copy(p, overwrite=ow)
            else:
                src = darr.asraggedarray(os.path.join(root, 'src'), [[1], [2, 3]], metadata=md if md else None)
                x = src.copy(p, overwrite=ow)
            run.add('creation_cases')
            exists = os.path.exists(os.path.join(p, 'metadata.json'))
            got = dict(x.metadata)
            want = GIVEN if row['content'] == 'given' else {}
            fresh = dict(darr.open(p).metadata)
            if exists != row['fileexists'] or got != want or fresh != want:
                run.violation('C13|creation|%s|given=%s|occupant=%s' % (c, row['given'], occ),
                              {'case': row, 'metadata_json_exists': exists, 'metadata': got, 'fresh': fresh},
                              {'kind': 'meta-creation', 'case': row})
        finally:
            shutil.rmtree(root, ignore_errors=True)


def run(tier, seed):
    run = Run('C13', tier, seed, 'model_checking')
    arrayhist.run_family(run, 'C13', tier, seed, 'meta')
    from .. import tracecheck
    tracecheck.run_random(run, 'C13', 2000 if tier == 'thorough' else 120, 60 if tier == 'thorough' else 40, seed)
    if True:   # the metadata tests of the repository are cheap to record
        from .. import testtrace
        testtrace.run_repo_tests(run, 'C13')
    ragged_metadata(run, tier, seed)
    creation_cases(run, seed)
    run.cov['rule'] = ('Array: every metadata macro-edge of the TLC graph of spec/Array.tla (update, setitem, empty update, '
                       'unserialisable update, pop, pop with default, popitem, del; metadata access mode) from all reachable '
                       'metadata states over 2 keys x 2 values, with rotating concrete value kinds; long random histories '
                       'validated by TLC (TraceArray, Focus C13); the same metadata edges replayed on RaggedArrays; creation '
                       'cases (6 creating functions x metadata None/{}/dict x occupant) from the TLC table of spec/MetaCreate.tla')
    run.assumptions += ['JSON round trip of model values computed with the standard json module and an independent NumPy conversion']
    return run.finish()
