from . import arrayhist


def run(tier, seed):
    return arrayhist.run_check('C13', tier, seed, 'meta')
