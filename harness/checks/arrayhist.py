"""C02 C03 C08 C11 C13 (Array part): histories of spec/Array.tla replayed into
darr.Array - every macro-edge of the TLC state graph, plus paths."""
import random

from .. import arraymodel as am
from .. import tlc, walk, tour, disk
from ..common import Run, Machinery
from ..concretize import Config, pick_configs

DATA_OPS = ['append', 'truncate', 'setitem', 'mode', 'reopen']
META_OPS = ['meta', 'mode', 'reopen', 'truncate', 'metamode']


class Sess(am.Session):
    def describe(self):
        d = self.cfg.as_dict()
        d.update(metaset=self.metaset, keys=list(self.keys.values()))
        return d


class Binding:
    expected_view = staticmethod(am.expected_view)
    ALL = ('C03', 'C02', 'C08', 'C13')

    def __init__(self, configs, bigconfigs):
        self.configs = configs
        self.big = bigconfigs

    def make_session(self, cfgi, m, path=None):
        ms = path if path is not None else ([m] if m is not None else [])
        needbig = any(x.name == 'IA_Call' and x.args[1].get('kind') == 'write' for x in ms)
        cfg = self.configs[cfgi % len(self.configs)]
        if needbig and (cfg.rowbytes < 4 or cfgi % 3 == 0):
            cfg = self.big[cfgi % len(self.big)]
        # a fresh Config object per session: register() mutates the decode table
        c = Config(*cfg.key()[:3], form=cfg.form, valset=cfg.valset, iterform=cfg.iterform)
        return Sess(c, metaset=cfgi // 3, keyset=cfgi // 5)

    MUTATING = ('IA_Call', 'IA_CallBadAppend', 'TR_Call', 'SetItem', 'M_Call', 'Delete')
    CTX = ('EnterCtx', 'ExitCtx')

    def before(self, sess, m):
        return disk.snapshot(sess.path)

    def compare(self, p, exp, obs, obs_out, sess=None, pre=None, macro=None, src=None):
        if p == 'C11':
            mm = []
            if (src.get('cx') or {}).get('on') and macro.name in self.MUTATING:
                # inside an open context: what the spec (= the documented behaviour of the open map) says
                if (exp['out'] == 'ok') != (obs_out == 'ok'):
                    mm.append(('out inside a context', exp['out'], obs_out))
                if obs['rows'] != tuple(exp['rows']):
                    mm.append(('disk rows inside a context', exp['rows'], obs['rows']))
            elif src['mode'] == 'r' and src.get('mmode', 'r') == 'r' and macro.name in self.MUTATING:
                post = disk.snapshot(sess.path)
                df = disk.snapdiff(pre, post)
                if obs_out == 'ok':
                    mm.append(('out', 'raises', 'ok'))
                if not obs['exists']:
                    mm.append(('directory', 'byte-identical', 'removed'))
                elif df:
                    mm.append(('directory', 'byte-identical', df[:4]))
            elif macro.name in self.MUTATING:
                # "after switching to r+ the same operations succeed": the spec
                # says which calls succeed in r+
                if (exp['out'] == 'ok') != (obs_out == 'ok'):
                    mm.append(('out in r+', exp['out'], obs_out))
            if obs['live'].get('mode') != exp['mode']:
                mm.append(('accessmode', exp['mode'], obs['live'].get('mode')))
            if obs['live'].get('mmode') != exp.get('mmode', exp['mode']) and not exp.get('gone'):
                mm.append(('metadata accessmode', exp.get('mmode'), obs['live'].get('mmode')))
            return mm
        if (src.get('cx') or {}).get('on') and macro.name in ('IA_Call', 'IA_CallBadAppend', 'SetItem') and obs_out != 'ok' \
                and pre is not None and not disk.snapdiff(pre, disk.snapshot(sess.path)):
            # operations inside an open context are outside the listed properties: a library that refuses them
            # and changes nothing is as right as the modelled behaviour
            return []
        return am.compare(p, exp, obs, obs_out, sess=sess, strict_out=(macro.name == 'M_Call'))


def _edge_class(m, src):
    """coarse class of a macro-edge, used in violation signatures"""
    if m.name == 'IA_Call':
        cs, f, via = m.args
        nrows = sum(len(c) for c in cs)
        return 'append:%s:fault=%s:start=%s:chunks=%s:rows=%s:mode=%s' % (
            via, f.get('kind'), 'empty' if len(src['ref']) == 0 else 'nonempty',
            min(len(cs), 2), min(nrows, 1), src['mode'])
    if m.name == 'IA_CallBadAppend':
        return 'append:bad=%s:start=%s:mode=%s' % (m.args[0], 'empty' if len(src['ref']) == 0 else 'nonempty', src['mode'])
    if m.name == 'TR_Call':
        i = m.args[0]
        n = len(src['ref'])
        kind = 'nonint' if i == am.NONINT else ('neg' if i < 0 else 'nonneg')
        return 'truncate:%s:start=%s:mode=%s' % (kind, 'empty' if n == 0 else 'nonempty', src['mode'])
    if m.name == 'M_Call':
        kd = m.args[0]
        has = any(v for v in am._asmap(src['refmeta']).values())
        present = am._asmap(src['refmeta']).get(m.args[1], 0) != 0
        return 'meta:%s:file=%s:keypresent=%s:mode=%s' % (kd, has, present, src['mode'])
    return '%s:start=%s:mode=%s' % (m.name, 'empty' if len(src['ref']) == 0 else 'nonempty', src['mode'])


def edge_class(m, src):
    c = _edge_class(m, src)
    cx = src.get('cx') or {}
    return c + (':inctx(%s)' % cx.get('mode') if cx.get('on') else '')


def report(run, prop, mg, macros, results, kind):
    n = 0
    for r in results:
        if 'error' in r and 'mism' not in r:
            raise Machinery('harness error while replaying %s: %s' % (kind, r['error']))
        if 'skipped' in r:
            run.add('skipped_unisolatable_faults')
            continue
        n += 1
        mm = r.get('mism', {}).get(prop)
        if mm:
            if kind == 'edge':
                m = macros[r['idx']]
                src = mg.rep[m.src]
                sig = '%s|%s|%s' % (prop, edge_class(m, src), mm[0][0])
                run.violation(sig, {'edge': m.label(), 'from': src, 'mismatch': mm, 'config': r['cfg'],
                                    'out': r.get('out'), 'exc': r.get('exc')},
                              {'kind': 'edge', 'from': src, 'name': m.name, 'args': m.args, 'config': r['cfg']})
            else:
                sig = '%s|path|%s|%s' % (prop, r.get('label', '?').split('(')[0], mm[0][0])
                run.violation(sig, {'path': r['labels'][:r.get('at', 0) + 1], 'mismatch': mm, 'config': r['cfg'],
                                    'out': r.get('out'), 'exc': r.get('exc')},
                              {'kind': 'path', 'labels': r['labels'], 'config': r['cfg']})
    return n


def run_check(prop, tier, seed, families):
    """families: 'data' and/or 'meta' (which operation alphabet an instance has)"""
    level = 'model_checking'
    run = Run(prop, tier, seed, level)
    for family in families.split('+'):
        run_family(run, prop, tier, seed, family)
    if prop in ('C02', 'C03', 'C08', 'C09', 'C13'):
        # code -> spec: long random histories with large bounds, validated by TLC (spec/TraceArray.tla)
        from .. import tracecheck
        tracecheck.run_random(run, prop, 2000 if tier == 'thorough' else 120, 60 if tier == 'thorough' else 40, seed)
        if tier == 'thorough' or prop == 'C03':
            # ... and the executions of the repository's own tests
            from .. import testtrace
            testtrace.run_repo_tests(run, prop)
    run.cov['rule'] = ('every macro-edge (public call from a quiescent state) of the TLC state graph of spec/Array.tla '
                       'is executed on the real darr.Array from a materialised source state and the projection of the '
                       'directory, live handle and fresh handle is compared with the spec target; paths are walks of '
                       'the same graph executed without re-materialisation; in addition long random histories of the real code (up to 10 '
                       'row ids, chunks of up to 5 rows, faults) are recorded and validated by TLC against spec/TraceArray.tla, '
                       'with a corrupted record as a control')
    run.assumptions += ['TLC results are exhaustive only for the instance constants recorded under tlc_instances',
                        'NumPy is the reference for casting appended data to the array dtype',
                        'materialisation of a source state uses darr.asarray (checked separately by C01)']
    return run.finish()


ENV_PROPS = ('C02', 'C05', 'C08', 'C09', 'C10', 'C13')
ENV_FAMILIES = ('data', 'meta', 'fault', 'readme')


def run_family(run, prop, tier, seed, family):
    thorough = tier == 'thorough'
    rnd = random.Random(seed)
    over = {}
    if family == 'data':
        over = dict(Ops=DATA_OPS + (['delete'] if prop == 'C11' else []),
                    InitModes=['r+', 'r'] if prop == 'C11' else ['r+'],
                    MaxRows=4 if thorough else 3)
        invs = ['WellFormedArray', 'Model_Array', 'AppendKeepsPrefix', 'TruncKeepsPrefix', 'Readme_Current', 'TypeOK']
    elif family == 'meta':
        over = dict(Ops=META_OPS, InitModes=['r+', 'r'] if prop == 'C11' else ['r+'], MaxRows=2, InitLens=[0, 2],
                    TruncArgs=[0, 1], InitMetas=[{'k1': 0, 'k2': 0}, {'k1': 1, 'k2': 0}, {'k1': 2, 'k2': 1}])
        invs = ['WellFormedArray', 'Model_Array', 'Readme_Current', 'Meta_Model', 'TypeOK']
    elif family == 'fault':
        over = dict(Ops=['append', 'truncate'], Faults=True, MaxRows=3, InitLens=[0, 1], TruncArgs=[0, 1, -1],
                    MaxChunks=2, MaxChunkLen=2)
        invs = ['WellFormedArray', 'Model_Array', 'AppendKeepsPrefix', 'FailedAppendExact', 'Readme_Current', 'TypeOK']
    elif family == 'ctx':
        # operations inside open_array() contexts / with a suspended iterchunks generator holding the map
        over = dict(Ops=['append', 'truncate', 'setitem', 'mode', 'reopen', 'ctx'], InitModes=['r+', 'r'], MaxRows=3,
                    InitLens=[0, 1], TruncArgs=[0, 1, -1], SetIdx=[-1, 0, 2], MaxChunks=1, MaxChunkLen=2)
        invs = ['WellFormedArray', 'Model_Array', 'AppendKeepsPrefix', 'Readme_Current', 'CtxOK', 'TypeOK']
        # the deviation must be real in the model: with contexts, ReadOnlyAlways does not hold
        mod, text, cfg = am.instance('%s_ctx_dev' % prop, [], ('ReadOnlyAlways',), **over)
        wd = tlc.workdir()
        with open(__import__('os').path.join(wd, mod + '.tla'), 'w') as f:
            f.write(text)
        rd = tlc.run(mod, cfg, wd=wd, workers=8, timeout=600)
        if rd.errors or not rd.violation:
            raise Machinery('Array.tla: ReadOnlyAlways is not violated with contexts - the write-through-open-map '
                            'behaviour is not in the model any more')
        run.cov.setdefault('expected_model_violations', []).append('ReadOnlyAlways with "ctx" in Ops (WriteThroughOpenMap)')
    r, g = am.run_instance('%s_%s' % (prop, family), invariants=invs, properties=('ReadOnly',), **over)
    need = {'data': ['IA_Call', 'IA_Write', 'IA_EmptyWrite', 'TR_OsTruncate', 'SetItem', 'UL_JsonWrite', 'UL_ReadmeWrite'],
            'meta': ['M_Call', 'M_Write', 'M_Unlink', 'RM_Write', 'M_Remove'],
            'fault': ['IA_Call', 'IA_CallBadAppend', 'IA_EmptyRecover', 'IA_RecStart', 'IA_RecTruncate', 'IA_Write',
                      'IA_EmptyWrite'],
            'ctx': ['EnterCtx', 'ExitCtx', 'IA_Write', 'IA_EmptyWrite', 'SetItem', 'SetMode', 'TR_OsTruncate']}[family]
    tlc.check_coverage(r, need, 'MC_%s_%s' % (prop, family))
    run.tlc('Array_%s' % family, r)
    mg = walk.MacroGraph(g, am.quiescent)
    run.add('macro_edges', mg.nmacros())
    run.add('quiescent_states', len(mg.rep))
    ncfg = 130 if thorough else 52
    configs = pick_configs(ncfg, seed, thorough)
    big = [Config(c.numtype, c.byteorder, (65536 // c.dtype.itemsize,), 'native', 0, c.iterform) for c in configs[:26]]
    b = Binding(configs, big)
    props = [prop]
    select = None
    if not thorough and family == 'meta' and prop != 'C13':
        # quick tier: the metadata alphabet is walked exhaustively by C13; the other properties take a
        # stratified sample of it (at most `cap` macro-edges per edge class)
        cap = 12
        allm = list(mg.all_macros())
        rnd.shuffle(allm)
        seen, keep = {}, set()
        for m in allm:
            c = edge_class(m, mg.rep[m.src])
            if seen.get(c, 0) < cap:
                seen[c] = seen.get(c, 0) + 1
                keep.add(id(m))
        select = lambda m: id(m) in keep
        run.cov['metadata_edges_sampled_per_class'] = cap
    macros, res = tour.edge_tour(b, mg, props, ncfg, per_edge=(3 if thorough else 1), seed=seed, select=select)
    n1 = report(run, prop, mg, macros, res, 'edge')
    run.add('edge_replays', n1)
    # paths: random walks from the initial states; thorough adds all short paths
    npaths, plen = (1500, 25) if thorough else (160, 10)
    paths = []
    for i in range(npaths):
        start = rnd.choice(mg.init)
        p = mg.random_path(rnd, plen, start=start)
        if p:
            paths.append((start, p))
    if thorough:
        for s in mg.init:
            compact = lambda m: not (m.name == 'IA_Call' and (len(m.args[0]) > 1 or sum(len(c) for c in m.args[0]) > 1)) \
                and not (m.name == 'TR_Call' and abs(m.args[0]) > 2 and m.args[0] != am.NONINT) \
                and not (m.name == 'SetItem' and m.args[0] not in (0, -1))
            for p in mg.paths_upto(3, s, limit=20000, select=compact):
                paths.append((s, p))
    if prop == 'C11':
        # rejected in 'r', then the same call after switching to 'r+'
        for k, ms in mg.out.items():
            if mg.rep[k]['mode'] != 'r':
                continue
            sw = [m for m in ms if m.name == 'SetMode' and m.args[0] == 'r+']
            if not sw:
                continue
            k2 = mg.dst_key(sw[0].dsts[0])
            for m in ms:
                if m.name in Binding.MUTATING:
                    again = [x for x in mg.out.get(k2, []) if x.name == m.name and x.args == m.args]
                    if again:
                        paths.append((k, [m, sw[0], again[0]]))
        rnd.shuffle(paths)
        if not thorough:
            paths = paths[:900]
    pres = tour.path_tour(b, mg, props, paths, ncfg, seed=seed)
    n2 = report(run, prop, mg, None, pres, 'path')
    run.add('paths_replayed', n2)
    run.add('path_steps', sum(x.get('steps', 0) for x in pres))
    if prop in ENV_PROPS and family in ENV_FAMILIES and (thorough or not run.cov.get('ascii_locale_child')):
        # (quick tier: once per check run - the first family of the Array side and of the ragged side)
        # the same paths in an interpreter whose default text encoding is ASCII (LC_ALL=C without UTF-8 mode):
        # nothing Darr writes or reads may depend on the locale of the process
        sub = paths[:(400 if thorough else 48)]
        info, eres = tour.env_path_tour(b, mg, props, sub, ncfg, tour.ASCII_ENV, seed=seed)
        if info['utf8_mode'] or 'UTF' in info['encoding'].upper():
            raise Machinery('the ASCII-locale child runs with %r' % (info,))
        for x in eres:
            for pp in list(x.get('mism', {})):
                x['mism'][pp] = [('locale=C:' + str(mm[0]),) + tuple(mm[1:]) for mm in x['mism'][pp]]
        n3 = report(run, prop, mg, None, eres, 'path')
        run.add('paths_replayed_under_ascii_locale', n3)
        run.cov['ascii_locale_child'] = info
    run.add('traces_validated_against_impl', n1 + n2)
    run.add('configurations', len({tuple(sorted((k, str(v)) for k, v in x['cfg'].items())) for x in res if 'cfg' in x}))
    run.cov['exhaustive_over_macro_edges'] = run.cov.get('exhaustive_over_macro_edges', True) and select is None
    for x in res[:2]:
        run.sample({'edge': x.get('label'), 'config': x.get('cfg'), 'out': x.get('out')})
    for x in pres[:1]:
        run.sample({'path': x.get('labels'), 'config': x.get('cfg')})
