from . import raggedhist


def run(tier, seed):
    return raggedhist.run_check('C10', tier, seed, 'fault+overflow')
