from . import arrayhist


def run(tier, seed):
    return arrayhist.run_check('C08', tier, seed, 'data+meta')
