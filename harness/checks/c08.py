from . import arrayhist, raggedhist
from ..common import Run


def run(tier, seed):
    run = Run('C08', tier, seed, 'model_checking')
    for family in ('data', 'meta'):
        arrayhist.run_family(run, 'C08', tier, seed, family)
    from .. import tracecheck
    tracecheck.run_random(run, 'C08', 2000 if tier == 'thorough' else 120, 60 if tier == 'thorough' else 40, seed)
    if tier == 'thorough':
        from .. import testtrace
        testtrace.run_repo_tests(run, 'C08')
    run.cov['rule'] = ('Array: every macro-edge of the TLC state graph of spec/Array.tla (data and metadata alphabets) is '
                       'executed on the real code; README bytes must equal the text regenerated from a fresh handle and '
                       'the parsed stamp must equal the spec stamp.')
    # thorough: also inside user contexts, where the ragged README is written through the maps that are open
    # (spec: TStamp through Visible - the stale listing is part of the model, outside C08's histories)
    return raggedhist.run_check('C08', tier, seed, 'readme+data+ctx' if tier == 'thorough' else 'readme+data', run=run)
