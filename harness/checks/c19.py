"""C19: interleaved iterchunks generators, open_array() contexts, element reads
and writes on one Array object.  spec/Mmap.tla is model-checked (no use of an
unmapped map, nothing left open, one map at a time); behaviours of its state
graph are schedules, each executed on the real object in its own forked child
on a multi-MB array, so that a crash is observed rather than suffered."""
import json
import multiprocessing as mp
import os
import random
import shutil
import signal
import tempfile
import traceback
import warnings

import numpy as np

from .. import tlc, tlaparse
from ..arraymodel import tlaval
from ..common import Run, Machinery

warnings.simplefilter('ignore')
UNIT = 131072          # int64 elements per frame unit (1 MiB)
GENS = {'g1': (1, None), 'g2': (2, None), 'g3': (2, 1)}     # chunklen, stepsize in units
_CTX = {}


def instance(alg, maxctx, gens, modes=('d',)):
    frames = []
    for g in gens:
        c, s = GENS[g]
        frames.append('(IF g = "%s" THEN IterIndices(3, %d, %s, NoneV, NoneV, TRUE) ELSE ' % (g, c, 'NoneV' if s is None else s))
    fr = ''.join(frames) + '<<>>' + ')' * len(frames)
    mod = 'MC_Mmap_%s' % alg
    text = ('---- MODULE %s ----\nEXTENDS Mmap\nF == INSTANCE Frames\n'
            'c_Gens == %s\nc_Frames == [g \\in c_Gens |-> %s]\nc_Modes == %s\n====\n') % (mod, tlaval(set(gens)), fr.replace('IterIndices', 'F!IterIndices').replace('NoneV', 'F!NoneV'), tlaval(set(modes)))
    cfg = ('SPECIFICATION Spec\nCONSTANTS\n Gens <- c_Gens\n Frames <- c_Frames\n MaxCtx = %d\n NUnits = 3\n'
           ' Algorithm = "%s"\n MaxMaps = 6\n Modes <- c_Modes\nINVARIANT NoUseAfterUnmap\nINVARIANT HoldersMapped\nINVARIANT NoLeak\n'
           'INVARIANT OneMap\nINVARIANT ModeKnown\n%s') % (maxctx, alg, 'PROPERTY MapStable\n' if alg == 'refcount' else '')
    return mod, text, cfg


def run_model(alg, maxctx, gens, dump, modes=('d',)):
    mod, text, cfg = instance(alg, maxctx, gens, modes)
    wd = tlc.workdir()
    with open(os.path.join(wd, mod + '.tla'), 'w') as f:
        f.write(text)
    dumpf = os.path.join(wd, mod + '_graph') if dump else None
    r = tlc.run(mod, cfg, wd=wd, workers=16, dump=dumpf, timeout=900)
    g = None
    if dump and not r.violation and not r.errors:
        g = tlaparse.dot(dumpf + '.dot')
    return r, g


# ------------------------------------------------------------------ child
MODEKW = {'r': 'r', 'rp': 'r+'}


def child_run(path, schedule, wfd):
    """runs in a forked child: perform the schedule, report what each action
    returned, then what is still open"""
    import darr
    from .c12 import open_handles
    a = darr.Array(path, accessmode='r+')
    gens = {}
    ctxs = []
    out = []
    for (name, arg) in schedule:
        if name == 'Start':
            arg, md = arg
            c, s = GENS[arg]
            gens[arg] = a.iterchunks(chunklen=c * UNIT, stepsize=None if s is None else s * UNIT,
                                     **({} if md == 'd' else {'accessmode': MODEKW[md]}))
            ch = next(gens[arg])
            out.append([int(x) for x in ch[::UNIT]] + [int(len(ch) // UNIT)])
        elif name == 'Advance':
            try:
                ch = next(gens[arg])
                out.append([int(x) for x in ch[::UNIT]] + [int(len(ch) // UNIT)])
            except StopIteration:
                out.append([-2])
        elif name == 'Close':
            gens[arg].close()
            del gens[arg]
            out.append([])
        elif name == 'Enter':
            cm = a.open_array() if arg == 'd' else a.open_array(accessmode=MODEKW[arg])
            cm.__enter__()
            ctxs.append(cm)
            out.append([])
        elif name == 'Exit':
            ctxs.pop().__exit__(None, None, None)
            out.append([])
        elif name == 'Read':
            out.append([int(a[(arg - 1) * UNIT])])
        elif name == 'Write':
            i = (arg - 1) * UNIT
            a[i] = 1 - int(a[i])
            out.append([])
        os.write(wfd, (json.dumps({'n': len(out), 'last': out[-1]}) + '\n').encode())
    left = open_handles(os.path.join(path, 'arrayvalues.bin'))
    os.write(wfd, (json.dumps({'done': True, 'open': left}) + '\n').encode())


def run_schedule(job):
    path, sched, expected = job
    # reset the contents: first element of every unit = 0
    with open(os.path.join(path, 'arrayvalues.bin'), 'r+b') as f:
        for u in range(3):
            f.seek(u * UNIT * 8)
            f.write(b'\0' * 8)
    r, w = os.pipe()
    pid = os.fork()
    if pid == 0:
        os.close(r)
        code = 0
        try:
            child_run(path, sched, w)
        except BaseException:
            try:
                os.write(w, (json.dumps({'exception': traceback.format_exc()[-800:]}) + '\n').encode())
            except Exception:
                pass
            code = 3
        os._exit(code)
    os.close(w)
    data = b''
    while True:
        chunk = os.read(r, 65536)
        if not chunk:
            break
        data += chunk
    os.close(r)
    _, status = os.waitpid(pid, 0)
    lines = [json.loads(x) for x in data.decode().splitlines() if x.strip()]
    res = {'steps_done': sum(1 for x in lines if 'n' in x)}
    if os.WIFSIGNALED(status):
        res['signal'] = signal.Signals(os.WTERMSIG(status)).name
        return res
    exc = [x for x in lines if 'exception' in x]
    if exc:
        res['exception'] = exc[0]['exception']
        return res
    obs = [x['last'] for x in lines if 'n' in x]
    for i, (o, e) in enumerate(zip(obs, expected)):
        if e is not None and o != e:
            res['mismatch'] = {'step': i, 'action': sched[i], 'expected': e, 'observed': o}
            return res
    fin = [x for x in lines if x.get('done')]
    if not fin:
        res['exception'] = 'child ended without reporting'
    elif fin[0]['open']:
        res['leak'] = fin[0]['open']
    return res


def _worker(batch):
    path = _CTX['paths'][os.getpid() % len(_CTX['paths'])]
    out = []
    for (i, sched, expected) in batch:
        try:
            # each worker needs its own array file: derive it from its pid
            p = _CTX['base'] + '_%d' % os.getpid()
            if not os.path.exists(p):
                shutil.copytree(_CTX['template'], p)
            r = run_schedule((p, sched, expected))
        except Exception:
            r = {'error': traceback.format_exc()}
        r['i'] = i
        out.append(r)
    return out


def expected_of(g, edge):
    """what the action returns according to the spec: ret of the target state"""
    name, args, dst = edge
    st = g.nodes[dst]
    ret = list(st['ret'])
    if name in ('Start', 'Advance'):
        if ret == [-2]:
            return [-2]
        return ret + [len(ret)]
    if name == 'Read':
        return ret
    return []


def run(tier, seed):
    run = Run('C19', tier, seed, 'model_checking')
    thorough = tier == 'thorough'
    rnd = random.Random(seed)
    gens = ['g1', 'g2', 'g3']
    # the pinned algorithm, as a named deviation: TLC must find the use-after-unmap
    rp, _ = run_model('owner', 2, gens, dump=False)
    if not rp.violation:
        raise Machinery('the model of the pinned (owner-closes) algorithm shows no violation: Mmap.tla is vacuous')
    run.cov['pinned_algorithm_counterexample'] = [lab.split(' line')[0] for lab, _ in rp.trace]
    r, g = run_model('refcount', 2, gens, dump=True, modes=('d', 'r', 'rp'))
    tlc.must_pass(r, 'MC_Mmap_refcount')
    tlc.check_coverage(r, ['Start', 'Advance', 'Close', 'Enter', 'Exit', 'Read', 'Write'], 'MC_Mmap_refcount')
    run.tlc('Mmap_refcount', r)
    init = g.init[0]
    # ---- schedules
    scheds = []

    def complete(node, path):
        """finish the survivors in a random admissible order"""
        for _ in range(40):
            st = g.nodes[node]
            fin = [e for e in g.edges.get(node, []) if e[0] in ('Close', 'Exit') or
                   (e[0] == 'Advance' and st['gstate'][e[1][0]] == 'active')]
            active = [x for x, v in st['gstate'].items() if v == 'active']
            if not active and st['nctx'] == 0:
                break
            e = rnd.choice(fin)
            path.append(e)
            node = e[2]
        return path

    # (a) every edge of the graph once: shortest path to its source (BFS tree), the edge, completion
    parent = {init: None}
    order = [init]
    for n in order:
        for e in g.edges.get(n, []):
            if e[2] not in parent:
                parent[e[2]] = (n, e)
                order.append(e[2])

    def path_to(n):
        p = []
        while parent[n] is not None:
            n, e = parent[n]
            p.append(e)
        return p[::-1]
    alledges = [(n, e) for n in order for e in g.edges.get(n, [])]
    run.add('graph_edges', len(alledges))
    covered = set()
    budget = 60000 if thorough else 2500
    rnd.shuffle(alledges)
    for (n, e) in alledges:
        key = (n, e[0], tuple(e[1]), e[2])
        if key in covered:
            continue
        p = path_to(n) + [e]
        node = e[2]
        # extend greedily through uncovered edges to amortise the prefix
        for _ in range(6):
            nxt = [x for x in g.edges.get(node, []) if (node, x[0], tuple(x[1]), x[2]) not in covered]
            if not nxt:
                break
            x = rnd.choice(nxt)
            p.append(x)
            node = x[2]
        nn = init
        for x in p:
            covered.add((nn, x[0], tuple(x[1]), x[2]))
            nn = x[2]
        scheds.append(complete(node, p))
        if len(scheds) >= budget:
            break
    run.add('edges_covered_by_schedules', len(covered))
    # (b) all schedules up to length L from the initial state
    L = 4 if thorough else 3

    def rec(node, acc):
        if acc:
            scheds.append(complete(node, list(acc)))
        if len(acc) == L:
            return
        for e in g.edges.get(node, []):
            if e[0] in ('Start', 'Enter') and e[1][-1] != 'd' and (not thorough or len(acc) >= 3):
                continue        # quick: explicit access modes come with the edge cover (a) and the random schedules (c);
                #                 thorough: in the first three steps of the enumeration as well
            acc.append(e)
            rec(e[2], acc)
            acc.pop()
    rec(init, [])
    run.cov['all_schedules_upto_length'] = L
    # (c) long random schedules
    for _ in range(3000 if thorough else 300):
        node, p = init, []
        for _ in range(rnd.randrange(6, 16)):
            es = g.edges.get(node, [])
            if not es:
                break
            e = rnd.choice(es)
            p.append(e)
            node = e[2]
        scheds.append(complete(node, p))
    # ---- execute
    root = tempfile.mkdtemp(prefix='darrc19_')
    try:
        import darr
        template = os.path.join(root, 'template')
        arr = np.zeros(3 * UNIT, dtype='int64')
        arr[1::UNIT] = 5
        darr.asarray(template, arr, accessmode='r+')
        _CTX.update(template=template, base=os.path.join(root, 'w'), paths=[template])
        jobs = []
        for i, p in enumerate(scheds):
            sched = [(e[0], (list(e[1]) if e[0] == 'Start' else (e[1][0] if e[1] else None))) for e in p]
            exp = [expected_of(g, e) for e in p]
            jobs.append((i, sched, exp))
        batches = [jobs[i:i + 50] for i in range(0, len(jobs), 50)]
        results = []
        with mp.get_context('fork').Pool(16) as pool:
            for rr in pool.imap_unordered(_worker, batches):
                results.extend(rr)
    finally:
        shutil.rmtree(root, ignore_errors=True)
    for res in results:
        if 'error' in res:
            raise Machinery('schedule runner failed: ' + res['error'])
        p = scheds[res['i']]
        labels = ['%s(%s)' % (e[0], ', '.join(str(x) for x in e[1])) for e in p]
        run.add('schedules_executed')
        run.add('schedule_steps', res.get('steps_done', 0))
        cls = None
        if 'signal' in res:
            cls = 'crash:' + res['signal']
        elif 'exception' in res:
            cls = 'exception'
        elif 'mismatch' in res:
            cls = 'incoherent:' + res['mismatch']['action'][0]
        elif 'leak' in res:
            cls = 'leak'
        if cls:
            # schedule class: which kinds of users overlap when it goes wrong
            st = 'guest-outlives-owner' if cls.startswith('crash') else 'other'
            run.violation('C19|%s|%s' % (cls, st), {'schedule': labels[:res.get('steps_done', 0) + 1], **res},
                          {'kind': 'schedule', 'schedule': labels})
    run.add('traces_validated_against_impl', len(results))
    for p in scheds[:2] + scheds[-1:]:
        run.sample(['%s(%s)' % (e[0], ', '.join(str(x) for x in e[1])) for e in p])
    run.cov['rule'] = ('schedules = behaviours of spec/Mmap.tla (3 generators with different chunk parameters, 2 nested '
                       'contexts, each started with accessmode None / r / r+ - the first user decides the mode of the shared map -, '
                       'contexts, element reads and writes on a 3 MiB int64 array): every graph edge reached through a '
                       'shortest prefix, all schedules up to the stated length, long random ones, each completed by a '
                       'random admissible order of finishing the survivors; each runs in its own forked child; exit '
                       'status/signal, every returned chunk/element vs the spec ret, and /proc/self/fd + maps at the end')
    run.assumptions += ['memory safety is observed (child exit status), not proved',
                        'the kernel unmaps pages of a closed map (multi-MB array)']
    return run.finish()
