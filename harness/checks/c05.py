from . import raggedhist


def run(tier, seed):
    return raggedhist.run_check('C05', tier, seed, 'data+overflow+ctx')
