from . import raggedhist


def run(tier, seed):
    return raggedhist.run_check('C04', tier, seed, 'data+overflow+ctx' if tier == 'thorough' else 'data+overflow')
