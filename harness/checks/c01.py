"""C01: creation round-trips values, dtype, byte order and shape.
spec/Create.tla: TLC checks ChunkInvariance and writes, per (input form, n,
chunklen, supported element type), which source rows must end up on disk in
which order and whether anything may be created; every row is multiplied by
configurations and executed on the real asarray / create_array."""
import multiprocessing as mp
import os
import random
import shutil
import tempfile
import traceback
import warnings

import numpy as np

from .. import tlc, disk
from ..common import Run, Machinery
from ..concretize import NUMTYPES, BYTEORDERS, dtype_of, row_values, specials

warnings.simplefilter('ignore')
NONE = -999999
TAILS = [(), (2,), (3, 2), (1,), (2, 1, 2), (1, 1)]
LAYOUTS = ['C', 'F', 'strided', 'negstride', 'transposed', 'broadcast']
UNSUPPORTED = ['bool', 'str', 'object', 'datetime', 'structured', 'timedelta', 'longdouble', 'clongdouble', 'bytes']


def base_array(numtype, n, tail, valset):
    a = np.empty((n,) + tail, dtype=numtype)
    for i in range(n):
        a[i] = row_values(numtype, tail, i + 1, valset if i < 2 else 0) if not tail == () or True else 0
    if n > 2 and valset:
        sp = specials(numtype)
        flat = a.reshape(n, -1)
        for i in range(2, n):
            flat[i, 0] = sp[(i + valset) % len(sp)]
    return a


def with_layout(a, layout, byteorder):
    """an ndarray with the values of `a` in the given memory layout / byte order"""
    dt = a.dtype.newbyteorder('<' if byteorder == 'little' else '>')
    a = a.astype(dt)
    if layout == 'C':
        return np.ascontiguousarray(a)
    if layout == 'F':
        return np.asfortranarray(a)
    if layout == 'strided':
        big = np.zeros((a.shape[0] * 2,) + a.shape[1:], dtype=dt)
        big[::2] = a
        return big[::2]
    if layout == 'negstride':
        return np.ascontiguousarray(a[::-1])[::-1]
    if layout == 'transposed':
        return np.ascontiguousarray(a.T).T
    if layout == 'broadcast':
        if a.shape[0] == 0:
            return a
        return np.broadcast_to(a[:1], a.shape)
    raise ValueError(layout)


def unsupported_input(kind, form, n):
    n = max(n, 1)
    if kind == 'bool':
        arr = np.array([True, False] * n)[:n]
    elif kind == 'str':
        arr = np.array(['a', 'bc'] * n)[:n]
    elif kind == 'object':
        arr = np.array([None, {}] * n, dtype=object)[:n]
    elif kind == 'datetime':
        arr = np.array(['2020-01-01'] * n, dtype='datetime64[D]')
    elif kind == 'timedelta':
        arr = np.arange(n).astype('timedelta64[s]')
    elif kind in ('longdouble', 'clongdouble'):
        arr = np.arange(n).astype(np.longdouble if kind == 'longdouble' else np.clongdouble)
        if arr.dtype.name in ('float64', 'complex128'):
            return None
    elif kind == 'bytes':
        arr = np.array([b'ab', b'c'] * n)[:n]
    else:
        arr = np.zeros(n, dtype=[('a', 'i4'), ('b', 'f8')])
    if form in ('list', 'tuple'):
        if kind in ('datetime', 'structured', 'object', 'timedelta', 'longdouble', 'clongdouble'):
            return None
        x = arr.tolist()
        return x if form == 'list' else tuple(x)
    if form == 'scalar':
        if kind in ('datetime', 'structured', 'object', 'timedelta', 'longdouble', 'clongdouble'):
            return arr[0] if kind in ('datetime', 'timedelta', 'longdouble', 'clongdouble') else None
        return arr[0].item()
    if form == 'generator':
        return (arr[i:i + 1] for i in range(n))
    return arr


def _job(args):
    import darr
    rows, seed, k0, reps = args
    out = {'ran': 0, 'bad': [], 'rejected': 0, 'created': 0}
    root = tempfile.mkdtemp(prefix='darrc01_')
    rnd = random.Random(seed * 7919 + k0)
    try:
        for ri, row in enumerate(rows):
            form, n, c0 = row['form'], row['n'], (None if row['c'] == NONE else row['c'])
            for rep in range(reps):
                j = (k0 + ri) * 31 + rep * 7 + seed
                # chunklen also as a NumPy integer of some width (same value)
                ct = [None, None, np.int64, None, np.uint8, np.uint64, None, np.int16][(j // 19) % 8]
                c = ct(c0) if (ct is not None and c0 is not None) else c0
                nt = NUMTYPES[j % 13]
                bo = BYTEORDERS[(j // 13) % 2]
                tail = TAILS[(j // 3) % len(TAILS)]
                layout = LAYOUTS[(j // 5) % len(LAYOUTS)]
                valset = (j // 7) % 5
                dta = None if (j // 2) % 3 else dtype_of(NUMTYPES[(j // 11) % 13], BYTEORDERS[(j // 17) % 2])
                parent = os.path.join(root, 'p%d_%d' % (ri, rep))
                os.mkdir(parent)
                path = os.path.join(parent, 'a.darr')
                desc = {'form': form, 'n': n, 'chunklen': c, 'numtype': nt, 'byteorder': bo, 'tail': tail,
                        'layout': layout, 'valset': valset, 'dtype_arg': str(dta) if dta is not None else None}
                try:
                    if not row['supported']:
                        kind = UNSUPPORTED[j % len(UNSUPPORTED)]
                        desc['unsupported'] = kind
                        if form == 'darr':
                            continue
                        if form in ('fill', 'fillfunc'):
                            dtb = {'bool': bool, 'str': 'U3', 'object': object, 'datetime': 'datetime64[D]',
                                   'structured': [('a', 'i4')], 'timedelta': 'timedelta64[s]', 'longdouble': np.longdouble,
                                   'clongdouble': np.clongdouble, 'bytes': 'S3'}[kind]
                            if np.dtype(dtb).name in ('float64', 'complex128'):
                                continue        # (platforms where long double is double)
                            call = lambda: darr.create_array(path, shape=(max(n, 1),), dtype=dtb, fill=1, chunklen=c)
                        else:
                            x = unsupported_input(kind, form, n)
                            if x is None:
                                continue
                            call = lambda: darr.asarray(path, x, chunklen=c)
                        onto_existing = (j % 3 == 0)
                        if onto_existing:
                            # the path holds a valid array already and overwrite=True is given: the rejected
                            # call must still leave everything as it was
                            darr.asarray(path, np.arange(6, dtype='int16').reshape(3, 2), metadata={'keep': 1})
                            if form in ('fill', 'fillfunc'):
                                call = lambda: darr.create_array(path, shape=(max(n, 1),), dtype=dtb, fill=1, chunklen=c,
                                                                 overwrite=True)
                            else:
                                x = unsupported_input(kind, form, n)
                                call = lambda: darr.asarray(path, x, chunklen=c, overwrite=True)
                            desc['onto_existing_array_with_overwrite'] = True
                        before = disk.snapshot(parent)
                        try:
                            call()
                            got = 'ok'
                        except TypeError:
                            got = 'TypeError'
                        except Exception as e:
                            got = type(e).__name__
                        out['ran'] += 1
                        out['rejected'] += 1
                        after = disk.snapshot(parent)
                        if got != 'TypeError' or after != before:
                            out['bad'].append({'case': desc, 'expected': 'TypeError and nothing created or changed', 'got': got,
                                               'changed': disk.snapdiff(before, after)[:4]})
                        continue
                    # ---- supported inputs: build x and the NumPy reference
                    # keep the reference well defined: no casts of NaN/inf/out-of-range values to
                    # integers (undefined in C), no Python-object conversions that NumPy refuses
                    sk = np.dtype(nt).kind
                    dk = np.dtype(dta).kind if dta is not None else sk
                    if dta is not None and dk in 'iu' and sk in 'fc':
                        valset = 0
                    if form in ('list', 'tuple', 'scalar', 'fill'):
                        if dta is not None:
                            valset = 0
                            if sk == 'c' and dk != 'c':
                                continue
                        if nt == 'uint64':
                            valset = 0
                    desc['valset'] = valset
                    src = base_array(nt, n if form != 'scalar' else 1, tail if form != 'scalar' else (), valset)
                    order = list(row['rows'])
                    if form == 'ndarray':
                        x = with_layout(src, layout, bo)
                        ref = np.asarray(x)
                        call = lambda: darr.asarray(path, x, dtype=dta, chunklen=c)
                    elif form in ('list', 'tuple'):
                        x = src.tolist()
                        if form == 'tuple':
                            x = tuple(x)
                        if n == 0 and tail != ():
                            continue        # an empty nested list cannot carry trailing axes
                        ref = np.asarray(x)
                        call = lambda: darr.asarray(path, x, dtype=dta, chunklen=c)
                    elif form == 'scalar':
                        x = src[0].item() if j % 2 else src[0]
                        ref = np.array(x, ndmin=1)
                        call = lambda: darr.asarray(path, x, dtype=dta, chunklen=c)
                    elif form == 'generator':
                        full = with_layout(src, layout, bo)
                        cc = c if c else max(n, 1)
                        chunks = [full[i:i + cc] for i in range(0, max(n, 1), cc)] if n else [full]
                        # later chunks in another dtype/byte order: must be cast to the first chunk's dtype
                        chunks = [ch if i == 0 or (j % 2) else ch.astype(ch.dtype.newbyteorder('S'))
                                  for i, ch in enumerate(chunks)]
                        ref = np.asarray(full)
                        x = iter(chunks)
                        call = lambda: darr.asarray(path, x, dtype=dta, chunklen=c)
                    elif form == 'darr':
                        full = with_layout(src, 'C', bo)
                        srcpath = os.path.join(parent, 'src.darr')
                        sd = darr.asarray(srcpath, full)
                        ref = np.asarray(full)
                        call = lambda: darr.asarray(path, sd, dtype=dta, chunklen=c)
                    elif form == 'fill':
                        fv = src.reshape(-1)[0] if src.size else np.dtype(nt).type(3)
                        dtf = dta if dta is not None else dtype_of(nt, bo)
                        if valset and np.dtype(dtf).kind == sk:
                            # special fill values: -0.0, NaN with payload, infinities, extremes, 0
                            sp = specials(nt) + [np.dtype(nt).type(0)]
                            fv = sp[j % len(sp)]
                            if j % 4 == 1 and sk == 'f':
                                fv = -0.0            # a plain Python float, too
                            desc['fill'] = repr(fv)
                        ref = np.full((n,) + tail, fv, dtype=dtf)
                        dta_eff = dtf
                        call = lambda: darr.create_array(path, shape=(n,) + tail if (tail or j % 2) else n,
                                                         dtype=dtf, fill=fv, chunklen=c)
                    else:
                        dtf = dta if dta is not None else dtype_of(nt, bo)
                        ff = lambda i: i * 3 + 1
                        grid = np.empty((n,) + tail, dtype='int64')
                        grid.T[:] = np.arange(n, dtype='int64')
                        ref = ff(grid).astype(dtf)
                        call = lambda: darr.create_array(path, shape=(n,) + tail, dtype=dtf, fillfunc=ff, chunklen=c)
                    if form in ('fill', 'fillfunc'):
                        expdt = np.dtype(dtf)
                        exp = np.ascontiguousarray(ref)
                    else:
                        expdt = np.dtype(dta) if dta is not None else ref.dtype
                        exp = np.ascontiguousarray(ref).astype(expdt)
                    if len(order) != exp.shape[0]:
                        raise Machinery('spec rows %s vs reference length %d' % (order, exp.shape[0]))
                    exp = exp[order] if len(order) else exp
                    try:
                        a = call()
                        got = 'ok'
                    except Exception as e:
                        got = '%s: %s' % (type(e).__name__, str(e)[:100])
                        a = None
                    out['ran'] += 1
                    if got != 'ok' and isinstance(c, np.integer):
                        # whether a NumPy integer is accepted as chunklen is the library's choice; refusing it
                        # is fine, storing a wrong array is not
                        out['refused_numpy_int'] = out.get('refused_numpy_int', 0) + 1
                        continue
                    if got != 'ok':
                        out['bad'].append({'case': desc, 'expected': 'created', 'got': got,
                                           'zero_length': n == 0})
                        continue
                    out['created'] += 1
                    problems = []
                    d = disk.ArrayDir(path)
                    for nm, h in (('returned handle', a), ('fresh handle', darr.Array(path))):
                        v = h[:]
                        if h.dtype.name != expdt.name or h.shape != exp.shape or v.shape != exp.shape:
                            problems.append((nm, 'dtype/shape', (expdt.name, exp.shape), (h.dtype.name, h.shape)))
                        elif expdt.itemsize > 1 and h.dtype.byteorder not in ('=', '|') and \
                                h.dtype.newbyteorder('=') != expdt.newbyteorder('=') or \
                                (expdt.itemsize > 1 and _bo(h.dtype) != _bo(expdt)):
                            problems.append((nm, 'byte order', _bo(expdt), _bo(h.dtype)))
                        elif v.astype(expdt).tobytes() != exp.tobytes():
                            problems.append((nm, 'element bit patterns', 'equal', 'different'))
                    if d.dproblem or not d.size_ok():
                        problems.append(('disk', 'descriptor/size', None, d.dproblem or (d.datasize, d.expected_size())))
                    else:
                        if d.numtype != expdt.name or d.shape != exp.shape or \
                                (expdt.itemsize > 1 and d.byteorder != _bo(expdt)):
                            problems.append(('disk', 'descriptor', (expdt.name, _bo(expdt), exp.shape),
                                             (d.numtype, d.byteorder, d.shape)))
                        elif d.raw() != exp.tobytes():
                            problems.append(('disk', 'raw bytes', 'equal', 'different'))
                    if problems:
                        out['bad'].append({'case': desc, 'problems': problems, 'zero_length': n == 0})
                finally:
                    shutil.rmtree(parent, ignore_errors=True)
    finally:
        shutil.rmtree(root, ignore_errors=True)
    return out


def _bo(dt):
    dt = np.dtype(dt)
    if dt.byteorder == '<' or (dt.byteorder in '=|' and np.little_endian):
        return 'little'
    return 'big'


# ---------------------------------------------------------------- element type of sequences / iterators
KINDS = {   # width 1 / width 2 scalars of one numeric kind
    'int': (lambda i: np.int8(i % 100 + 1), lambda i: np.int64(2 ** 40 + i)),
    'uint': (lambda i: np.uint8(i % 200 + 1), lambda i: np.uint32(70000 + i)),
    'float': (lambda i: np.float32(i + 0.5), lambda i: np.float64(i + 0.1)),
    'complex': (lambda i: np.complex64(i + 0.5j), lambda i: np.complex128(i + 0.1j)),
    'pyfloat': (lambda i: np.float32(i + 0.5), lambda i: float(i) + 0.1),
}


def typing_cases(run, rows, seed):
    """TypeRows of spec/Create.tla: which source rows decide the stored element type"""
    import darr
    root = tempfile.mkdtemp(prefix='darrc01t_')
    kinds = sorted(KINDS)
    try:
        for ri, row in enumerate(rows):
            kind = kinds[(ri + seed) % len(kinds)]
            nested = (ri // len(kinds)) % 3 == 1
            mk = KINDS[kind]
            vals = [mk[w - 1](i) for i, w in enumerate(row['ws'])]
            x = [[v, v] for v in vals] if nested else list(vals)
            c = None if row['c'] == NONE else row['c']
            form = row['form']
            if form == 'tuple':
                x = tuple(x)
            p = os.path.join(root, 'a%d' % ri)
            decide = [x[k] for k in row['decide']]
            want_dtype = np.asarray(decide).dtype           # NumPy promotion over the deciding rows
            ref = np.asarray(list(x)).astype(want_dtype)
            if form == 'generator':
                cl = c or len(x) + 1
                inp = (list(x)[i:i + cl] for i in range(0, len(x), cl))
            else:
                inp = x
            run.add('typing_cases')
            try:
                a = darr.asarray(p, inp, chunklen=c)
                got = a[:]
                fresh = darr.Array(p)[:]
            except Exception as e:
                run.violation('C01|typing|%s|raises' % form, {'case': row, 'kind': kind, 'error': repr(e)[:200]},
                              {'kind': 'create-typing', 'case': row})
                continue
            ok = (got.dtype == want_dtype and got.shape == ref.shape and got.tobytes() == ref.tobytes()
                  and fresh.dtype == want_dtype and fresh.tobytes() == ref.tobytes())
            if not ok:
                run.violation('C01|typing|%s|%s|element type' % (form, 'chunklen=None' if c is None else 'chunklen<n' if c < len(x) else 'chunklen>=n'),
                              {'case': row, 'kind': kind, 'nested': nested, 'input': repr(x)[:200], 'expected_dtype': want_dtype.str,
                               'stored_dtype': got.dtype.str, 'expected': repr(ref.tolist())[:200], 'stored': repr(got.tolist())[:200]},
                              {'kind': 'create-typing', 'case': row, 'numeric_kind': kind})
    finally:
        shutil.rmtree(root, ignore_errors=True)


def run(tier, seed):
    run = Run('C01', tier, seed, 'model_checking')
    thorough = tier == 'thorough'
    N = 6
    r = tlc.table('Create', 'CreateRows(%d)' % N, defs='ASSUME ChunkInvariance(%d)' % (N + 2), name='create', heap='6g')
    rows = r.rows
    run.add('states', len(rows))
    run.add('transitions', len(rows))
    run.cov['tlc_assumes'] = ['ChunkInvariance(%d)' % (N + 2)]
    reps = 12 if thorough else 5
    jobs = [(rows[i:i + 40], seed, i, reps) for i in range(0, len(rows), 40)]
    results = []
    with mp.get_context('fork').Pool(16) as pool:
        for x in pool.imap_unordered(_job, jobs):
            results.append(x)
    for res in results:
        run.add('evaluations', res['ran'])
        run.add('created', res['created'])
        run.add('rejected_inputs', res['rejected'])
        for b in res['bad']:
            c = b['case']
            what = b['problems'][0][1] if 'problems' in b else ('reject' if 'unsupported' in c else 'raises')
            sig = 'C01|%s|%s|%s|%s' % (c['form'], 'zero-length' if b.get('zero_length') else 'nonempty',
                                       'dtypearg' if c.get('dtype_arg') else 'nodtype', what)
            run.violation(sig, b, {'kind': 'create', 'case': b})
    # element type when no dtype is given: a sequence is converted as a whole, an iterator by its first chunk;
    # the pinned per-slice algorithm ("firstchunk") must be found chunklen-dependent by TLC
    NT = 4
    tr = tlc.table('Create', 'TypeRows(%d)' % NT,
                   defs='ASSUME TypeInvariance(%d, "whole")\nASSUME ~TypeInvariance(3, "firstchunk")' % NT, name='createtypes')
    run.cov['tlc_assumes'] += ['TypeInvariance(%d, "whole")' % NT, '~TypeInvariance(3, "firstchunk")']
    typing_cases(run, tr.rows, seed)
    run.add('states', len(tr.rows))
    run.cov['distinct_nontrivial'] = len(rows) + len(tr.rows)
    run.add('traces_validated_against_impl', len(rows) + len(tr.rows))
    for row in rows[300:303]:
        run.sample(row)
    run.cov['rule'] = ('rows = (input form, n <= 6, chunklen incl. None and > n, supported?) with the stored row order '
                       'evaluated by TLC from the chunkers of spec/Create.tla (ChunkInvariance checked); each row executed '
                       'with rotating configurations (13 types, 2 byte orders, 6 memory layouts, ranks 1-4 with length-1 '
                       'axes, dtype argument None / any type, special values); returned handle, fresh handle and the '
                       'independent file reader are compared with the NumPy reference as bit patterns; unsupported element '
                       'types must raise TypeError and leave the parent directory empty')
    run.assumptions += ['NumPy is the reference for np.asarray(x) and astype(dtype), as the property states']
    return run.finish()
