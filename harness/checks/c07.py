"""C07: generated read code for RaggedArrays extracts every subarray correctly.
Foreign-language programs are lowered by strict front ends to ragged plans
(index-array plan, values plan, accessor, example) and judged by TLC with
spec/RaggedReadCode.tla for every k; offered/withheld against the TLC table
RaggedOfferedRows; darr / numpymemmap programs are executed."""
import json
import os
import shutil
import subprocess
import sys
import tempfile
import warnings

import numpy as np

from .. import tlc, disk
from .. import readcode_fe as fe
from ..common import Run, Machinery
from ..concretize import NUMTYPES, BYTEORDERS, INDEXTYPES, dtype_of

warnings.simplefilter('ignore')
ATOMS = [(), (2,), (2, 3), (2, 1, 3)]
SUBS = [[2], [0, 3], [1, 0, 2], [2, 0, 0, 1, 3, 1, 2], [0, 0, 1], [3, 1], [2, 1, 0]]
PYFAMILY = ['darr', 'numpymemmap']

RUNNER = r'''
import sys, json, os, hashlib
import numpy as np
jobs = json.load(open(sys.argv[1]))
out = []
def fp(d):
    o = {}
    for root, dirs, files in os.walk(d):
        for fn in files:
            p = os.path.join(root, fn)
            o[os.path.relpath(p, d)] = hashlib.sha256(open(p, 'rb').read()).hexdigest()
    return o
for j in jobs:
    os.chdir(j['cwd'])
    r = {'id': j['id']}
    before = fp(j['cwd'])
    ns = {}
    try:
        exec(j['code'], ns)
        subs = []
        if j['lang'] == 'darr':
            a = ns['a']
            get = lambda k: a[k]
        else:
            get = ns['getsubarray']
        for k in range(j['n']):
            s = np.asarray(get(k))
            subs.append({'shape': list(s.shape), 'dtype': s.dtype.str,
                         'hex': np.ascontiguousarray(s).astype(s.dtype.newbyteorder('<')).tobytes().hex()})
        r['subs'] = subs
        if j['n']:
            sa = np.asarray(ns['sa'])
            r['sa'] = {'shape': list(sa.shape), 'hex': np.ascontiguousarray(sa).astype(sa.dtype.newbyteorder('<')).tobytes().hex()}
        ns.clear()
    except Exception as e:
        r['error'] = '%s: %s' % (type(e).__name__, str(e)[:200])
    import gc
    gc.collect()
    after = fp(j['cwd'])
    r['changed'] = sorted(k for k in set(before) | set(after) if before.get(k) != after.get(k))
    out.append(r)
json.dump(out, open(sys.argv[2], 'w'))
'''


def _lehex(a):
    """values as little-endian bytes: a wrong byte-order label must show as wrong values"""
    a = np.ascontiguousarray(a)
    return a.astype(a.dtype.newbyteorder('<')).tobytes().hex()


def run(tier, seed):
    import darr
    run = Run('C07', tier, seed, 'model_checking')
    thorough = tier == 'thorough'
    root = tempfile.mkdtemp(prefix='darrc07_')
    try:
        offered = tlc.table('RaggedReadCode', 'RaggedOfferedRows', name='roffered')
        off = {(r['lang'], r['numtype'], r['indextype'], r['atomrank']): r['offered'] for r in offered.rows}
        langs = sorted({r['lang'] for r in offered.rows})
        cases = []
        i = seed
        for vt in NUMTYPES:
            for it in INDEXTYPES:
                combos = [(a, s, b) for a in ATOMS for s in SUBS for b in BYTEORDERS] if thorough else None
                if thorough:
                    for (a, s, b) in combos[::3]:
                        cases.append((vt, it, a, s, b))
                else:
                    for r in range(4):
                        i += 1
                        cases.append((vt, it, ATOMS[(i + r) % 4], SUBS[(i * 5 + r) % len(SUBS)], BYTEORDERS[(i + r) % 2]))
        # the number of stored values reaches the maximum of a narrow index type: the start of a trailing
        # zero-length subarray is then the largest value the index class can hold
        IMAX = {'int8': 127, 'uint8': 255, 'int16': 32767, 'uint16': 65535}
        for it in (['int8', 'uint8', 'int16', 'uint16'] if thorough else ['int8', 'uint8', 'uint16']):
            for j, vt in enumerate(['int32', 'float64'] if thorough else ['int32']):
                m = IMAX[it]
                cases.append((vt, it, (), [m, 0], BYTEORDERS[j % 2]))
                cases.append((vt, it, (), [m - 5, 3, 0, 2, 0, 0], BYTEORDERS[(j + 1) % 2]))
        plans, pyjobs, expected = [], [], {}
        nprog = 0
        for ci, (vt, it, atom, lens, bo) in enumerate(cases):
            d = os.path.join(root, 'r%d' % ci)
            dt = dtype_of(vt, bo)
            items = []
            cnt = 1
            for ln in lens:
                n = ln * (int(np.prod(atom)) if atom else 1)
                items.append((np.arange(cnt, cnt + n) % 120 + 1).reshape((ln,) + atom).astype(dt))
                cnt += n
            # the array gets its content through a history on ONE handle, with code generated in between: what
            # readcode() returns afterwards is the program for the current content
            hist = ci % 3
            if hist == 1 and len(items) >= 2:
                ra = darr.asraggedarray(d, items[:-1], dtype=dt, indextype=it, accessmode='r+')
                for lang in langs:
                    ra.readcode(lang)
                ra.append(items[-1])
            elif hist == 2:
                ra = darr.asraggedarray(d, items + [items[0][:0]], dtype=dt, indextype=it, accessmode='r+')
                for lang in langs:
                    ra.readcode(lang)
                darr.truncate_raggedarray(ra, len(items))
            else:
                ra = darr.asraggedarray(d, items, dtype=dt, indextype=it)
            rows = []
            pos = 0
            for ln in lens:
                rows.append((pos, pos + ln))
                pos += ln
            ibo = 'little'
            got_langs = []
            for lang in langs:
                try:
                    code = ra.readcode(lang)
                except Exception as e:
                    run.violation('C07|readcode-raises|%s' % lang, {'language': lang, 'error': repr(e)[:200], 'numtype': vt,
                                                                    'indextype': it, 'atom': atom}, {'kind': 'ragged'})
                    continue
                if code is not None:
                    got_langs.append(lang)
                want = off[(lang, vt, it, len(atom))]
                run.add('offer_decisions')
                if (code is not None) != want:
                    run.violation('C07|offered|%s|%s|%s' % (lang, vt, it),
                                  {'language': lang, 'numtype': vt, 'indextype': it, 'atomrank': len(atom),
                                   'documented': 'offered' if want else 'withheld',
                                   'readcode': 'returns code' if code is not None else 'returns None'}, {'kind': 'offered'})
                    continue
                if code is None:
                    continue
                nprog += 1
                run.add('programs')
                desc = {'language': lang, 'numtype': vt, 'byteorder': bo, 'indextype': it, 'atom': atom, 'lengths': lens}
                if lang in PYFAMILY:
                    pyjobs.append({'id': len(pyjobs), 'lang': lang, 'cwd': d, 'code': code.replace('path_to_data_dir', d),
                                   'n': len(lens)})
                    expected[len(pyjobs) - 1] = (items, desc, code)
                    continue
                try:
                    rp = fe.parse_ragged(lang, code)
                except fe.NotWellFormed as e:
                    run.violation('C07|notwellformed|%s' % lang, {**desc, 'reason': str(e), 'code': code},
                                  {'kind': 'ragged-readcode', 'code': code})
                    continue
                for which, sub in (('idx', 'indices'), ('val', 'values')):
                    if rp[which]['path'] != sub + '/arrayvalues.bin':
                        run.violation('C07|path|%s' % lang, {**desc, 'expected_path': sub + '/arrayvalues.bin',
                                                            'path_in_code': rp[which]['path']}, {'kind': 'ragged-path'})
                st = (atom, vt, bo, it, ibo, rows)
                plans.append((len(plans), rp, st, code, desc))
            if tuple(ra.readcodelanguages) != tuple(sorted(got_langs)):
                run.violation('C07|readcodelanguages', {'numtype': vt, 'indextype': it, 'readcodelanguages': ra.readcodelanguages,
                                                       'languages_with_code': sorted(got_langs)}, {'kind': 'langs'})
        # an empty ragged array: the Python-family code must not change any file
        for k, vt in enumerate(['float64', 'int16']):
            d = os.path.join(root, 'empty%d' % k)
            ra = darr.create_raggedarray(d, atom=(2,), dtype=vt)
            for lang in PYFAMILY:
                code = ra.readcode(lang)
                if code is not None:
                    pyjobs.append({'id': len(pyjobs), 'lang': lang, 'cwd': d, 'code': code.replace('path_to_data_dir', d), 'n': 0})
                    expected[len(pyjobs) - 1] = ([], {'language': lang, 'numtype': vt, 'empty': True}, code)
        # ---- TLC judges the ragged plans, for every k
        if plans:
            def tla_st(st):
                atom, vt, bo, it, ibo, rows = st
                return ('[atom |-> <<%s>>, numtype |-> "%s", bo |-> "%s", inumtype |-> "%s", ibo |-> "%s", rows |-> <<%s>>]'
                        % (', '.join(map(str, atom)), vt, bo, it, ibo, ', '.join('<<%d, %d>>' % r for r in rows)))
            defs = 'RPlans == {\n' + ',\n'.join('[p |-> %s, st |-> %s]' % (fe.ragged_to_tla(rp, pid), tla_st(st))
                                                for pid, rp, st, _, _ in plans) + '}'
            r = tlc.table('RaggedReadCode', '{[id |-> x.p.id, verdict |-> RaggedFail(x.p, x.st)] : x \\in RPlans}', defs=defs,
                          name='rplans', heap='8g', timeout=1500)
            run.add('states', len(r.rows))
            run.add('transitions', len(r.rows))
            verdict = {x['id']: x['verdict'] for x in r.rows}
            for pid, rp, st, code, desc in plans:
                run.add('plans_judged_by_tlc')
                run.add('subarrays_checked', len(st[5]))
                v = verdict.get(pid)
                if v != 'ok':
                    cls = 'n=%s|atomrank=%d' % (min(len(st[5]), 3), len(st[0]))
                    run.violation('C07|plan|%s|%s|%s' % (rp['idx']['lang'], v, cls),
                                  {**desc, 'failing_clause': v, 'accessor': rp['acc'], 'example': rp['ex'], 'code': code},
                                  {'kind': 'ragged-readcode', 'code': code})
        # ---- Python family: execute
        jf, of = os.path.join(root, 'jobs.json'), os.path.join(root, 'out.json')
        with open(os.path.join(root, 'runner.py'), 'w') as f:
            f.write(RUNNER)
        json.dump(pyjobs, open(jf, 'w'))
        pr = subprocess.run([sys.executable, '-W', 'ignore', os.path.join(root, 'runner.py'), jf, of],
                            stdout=subprocess.PIPE, stderr=subprocess.STDOUT, text=True, timeout=900)
        if not os.path.exists(of):
            raise Machinery('snippet runner failed: ' + pr.stdout[-1500:])
        res = {r['id']: r for r in json.load(open(of))}
        for jid, (items, desc, code) in expected.items():
            r = res[jid]
            run.add('python_family_executions')
            lang = desc['language']
            if r.get('changed'):
                run.violation('C07|modifies|%s|%s' % (lang, 'empty' if desc.get('empty') else 'nonempty'),
                              {**desc, 'changed_files': r['changed'], 'code': code}, {'kind': 'ragged-exec'})
            if desc.get('empty'):
                continue        # for an array without values only "changes no file" is demanded
            if 'error' in r:
                n = len(items)
                run.violation('C07|exec|%s|error|n=%d' % (lang, min(n, 3)), {**desc, 'error': r['error'], 'code': code},
                              {'kind': 'ragged-exec'})
                continue
            for k, it_ in enumerate(items):
                g = r['subs'][k]
                if tuple(g['shape']) != it_.shape or g['hex'] != _lehex(it_):
                    run.violation('C07|exec|%s|subarray' % lang, {**desc, 'k': k, 'expected_shape': it_.shape,
                                                                'got_shape': g['shape'], 'code': code}, {'kind': 'ragged-exec'})
                    break
            if items:
                m = __import__('re').search(r'# example to read (\w+) \(k=(\d+)\) subarray', code)
                if not m:
                    run.violation('C07|exec|%s|example' % lang, {**desc, 'problem': 'no example comment', 'code': code},
                                  {'kind': 'ragged-exec'})
                else:
                    k = int(m.group(2))
                    okk = fe.ORD.get(m.group(1)) == k and k < len(items) and \
                        r['sa']['hex'] == _lehex(items[k])
                    if not okk:
                        run.violation('C07|exec|%s|example|n=%d' % (lang, min(len(items), 3)),
                                      {**desc, 'problem': 'the example does not bind the subarray it announces',
                                       'announced': m.group(0), 'code': code}, {'kind': 'ragged-exec'})
        run.cov['programs_distinct'] = nprog
        run.cov['distinct_nontrivial'] = nprog
        run.add('traces_validated_against_impl', len(plans) + len(pyjobs))
        if plans:
            run.sample({'accessor': plans[0][1]['acc'], 'example': plans[0][1]['ex'], 'stored': plans[0][4]})
            run.sample({'code': plans[len(plans) // 2][3]})
    finally:
        shutil.rmtree(root, ignore_errors=True)
    run.cov['rule'] = ('programs: 9 languages x 13 value types x 7 index types x atom rank 0-3 (distinct extents, a length-1 '
                       'axis) x subarray layouts with 1, 2, 3 and many subarrays incl. zero-length ones x byte orders (quick: 4 '
                       'rotating combinations per value/index type pair; thorough: a third of the full product); foreign '
                       'programs parsed by strict front ends and judged by TLC with RaggedFail of spec/RaggedReadCode.tla for '
                       'every k (index origin, end inclusiveness, range semantics for empty subarrays, placeholders, empty-value '
                       'dimensions, example); darr / numpymemmap programs executed with file hashes before/after')
    run.assumptions += ['language range semantics (what lo:hi means for lo = hi + 1) are a transcription (trusted)',
                        'a length-1 subarray losing its singleton axis through default indexing still counts as subarray k']
    return run.finish()
