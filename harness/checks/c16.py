"""C16: deletion and creation never destroy data that is not theirs to destroy.
spec/DirTree.tla: TLC enumerates the delete cases (function x target kind x
foreign content kind x location x call form) and the creation cases (function
x previous occupant x overwrite x form) with their verdicts; each case is
materialised and executed with a recursive byte snapshot of the path, its
parent and the targets of symlinks."""
import multiprocessing as mp
import os
import shutil
import tempfile
import traceback
import warnings
from pathlib import Path

import numpy as np

from .. import tlc, disk
from ..common import Run, Machinery

warnings.simplefilter('ignore')


def build_target(root, kind):
    import darr
    p = os.path.join(root, 'target')
    if kind == 'Array':
        darr.asarray(p, np.arange(6, dtype='int16').reshape(3, 2), metadata={'m': 1})
    elif kind == 'RaggedArray':
        darr.asraggedarray(p, [[1.5, 2.5], [], [3.5]], metadata={'m': 1})
    elif kind == 'plaindir':
        os.mkdir(p)
        # a user's own directory, with files that happen to carry names Darr also uses
        for name, text in (('something.txt', 'user data'), ('README.txt', 'my notes, not Darr\'s'),
                           ('metadata.json', '{"mine": true}')):
            with open(os.path.join(p, name), 'w') as f:
                f.write(text)
    elif kind == 'file':
        with open(p, 'w') as f:
            f.write('user data in a plain file')
    return p


def plant(root, p, foreign, loc):
    """returns the list of (relative name, must_survive_itself) + external paths"""
    d = p if loc == 'top' else os.path.join(p, loc)
    ext = os.path.join(root, 'external')
    os.makedirs(ext, exist_ok=True)
    with open(os.path.join(ext, 'precious.txt'), 'w') as f:
        f.write('precious external data')
    os.makedirs(os.path.join(ext, 'preciousdir'), exist_ok=True)
    with open(os.path.join(ext, 'preciousdir', 'inner.txt'), 'w') as f:
        f.write('inner external data')
    with open(os.path.join(ext, 'precious.json'), 'w') as f:
        f.write('{"x": 1}')
    own = []
    if foreign == 'file':
        with open(os.path.join(d, 'notes.txt'), 'w') as f:
            f.write('my notes')
        own.append(os.path.join(d, 'notes.txt'))
    elif foreign == 'dir':
        os.mkdir(os.path.join(d, 'sub'))
        with open(os.path.join(d, 'sub', 'deep.txt'), 'w') as f:
            f.write('deep')
        own.append(os.path.join(d, 'sub'))
    elif foreign == 'symlink_file':
        os.symlink(os.path.join(ext, 'precious.txt'), os.path.join(d, 'link.txt'))
        own.append(os.path.join(d, 'link.txt'))
    elif foreign == 'symlink_dir':
        os.symlink(os.path.join(ext, 'preciousdir'), os.path.join(d, 'linkdir'))
        own.append(os.path.join(d, 'linkdir'))
    elif foreign == 'collide_dir':
        t = os.path.join(d, 'metadata.json')
        if os.path.exists(t):
            os.unlink(t)
        os.mkdir(t)
        with open(os.path.join(t, 'inside.txt'), 'w') as f:
            f.write('inside a directory that has a Darr file name')
    elif foreign == 'collide_symlink':
        t = os.path.join(d, 'metadata.json')
        if os.path.exists(t):
            os.unlink(t)
        os.symlink(os.path.join(ext, 'precious.json'), t)
    return own, ext


def delete_case(row, idx):
    import darr
    root = tempfile.mkdtemp(prefix='darrc16d_')
    bad = []
    try:
        stale = None
        if row['form'] == 'staleobject':
            # a handle from the time the path held an array of the deleter's kind; that array is gone since
            p0 = os.path.join(root, 'target')
            if row['fn'] == 'delete_array':
                stale = darr.asarray(p0, [1.5, 2.5, 3.5], accessmode='r+', metadata={'was': 'here'})
            else:
                stale = darr.asraggedarray(p0, [[1, 2], [3]], accessmode='r+', metadata={'was': 'here'})
            getattr(darr, row['fn'])(p0)
        p = build_target(root, row['kind'])
        own, ext = ([], None)
        if row['foreign'] != 'none':
            own, ext = plant(root, p, row['foreign'], row['loc'])
        fn = getattr(darr, row['fn'])
        if stale is not None:
            arg = stale
        elif row['form'] == 'object':
            arg = (darr.Array if row['kind'] == 'Array' else darr.RaggedArray)(p, accessmode='r+')
        elif row['form'] == 'str':
            arg = p
        else:
            arg = Path(p)
        before = disk.snapshot(root)
        own_before = {o: disk.snapshot(o) for o in own}
        ext_before = disk.snapshot(ext) if ext else None
        try:
            fn(arg)
            got = 'ok'
        except TypeError:
            got = 'TypeError'
        except OSError:
            got = 'OSError'
        except Exception as e:
            got = type(e).__name__
        after = disk.snapshot(root)
        v = row['v']
        if v['out'] == 'Raises':
            if got == 'ok':
                bad.append(('exception', 'raises', got))
        elif v['out'] != 'Any' and got != v['out']:
            bad.append(('exception', v['out'], got))
        if v['unchanged'] and before != after:
            bad.append(('tree', 'byte-identical', disk.snapdiff(before, after)[:4]))
        if v['all_gone'] and os.path.lexists(p):
            bad.append(('array directory', 'nothing remains', sorted(os.listdir(p)) if os.path.isdir(p) else 'exists'))
        for o in own:
            if not os.path.lexists(o) or disk.snapshot(o) != own_before[o]:
                bad.append(('foreign entry ' + os.path.relpath(o, root), 'survives unmodified',
                            'missing' if not os.path.lexists(o) else 'modified'))
        if ext and disk.snapshot(ext) != ext_before:
            bad.append(('symlink target', 'never followed / unmodified', disk.snapdiff(ext_before, disk.snapshot(ext))[:3]))
        # everything outside the target path is never touched
        outside = lambda s: {k: x for k, x in s.items() if not (k == 'target' or k.startswith('target/'))}
        if outside(before) != outside(after):
            bad.append(('parent directory', 'unchanged', disk.snapdiff(outside(before), outside(after))[:3]))
    finally:
        shutil.rmtree(root, ignore_errors=True)
    return bad


def build_occupant(root, occ):
    import darr
    p = os.path.join(root, 'place')
    if occ == 'array_meta':
        darr.asarray(p, np.arange(5, dtype='float32'), metadata={'old': True})
    elif occ == 'ragged':
        darr.asraggedarray(p, [[1, 2], [3]], metadata={'old': True})
    elif occ == 'file':
        with open(p, 'w') as f:
            f.write('a plain user file')
        return p, [p]
    elif occ in ('symlink_file', 'symlink_dir', 'symlink_dangling'):
        ext = os.path.join(root, 'external')
        os.makedirs(os.path.join(ext, 'adir'))
        with open(os.path.join(ext, 'afile.tar.xz'), 'w') as f:
            f.write('precious')
        with open(os.path.join(ext, 'adir', 'inner.txt'), 'w') as f:
            f.write('inner')
        tgt = {'symlink_file': os.path.join(ext, 'afile.tar.xz'), 'symlink_dir': os.path.join(ext, 'adir'),
               'symlink_dangling': os.path.join(ext, 'nothing-here')}[occ]
        os.symlink(tgt, p)
        return p, [p, ext]
    elif occ in ('dir_links', 'array_links'):
        ext = os.path.join(root, 'external')
        os.makedirs(os.path.join(ext, 'vdir'))
        os.makedirs(os.path.join(ext, 'idir'))
        for nm in ('data.bin', 'descr.json', 'readme.txt', 'meta.json'):
            with open(os.path.join(ext, nm), 'w') as f:
                f.write('precious ' + nm)
        with open(os.path.join(ext, 'vdir', 'inner.txt'), 'w') as f:
            f.write('inner')
        if occ == 'dir_links':
            os.mkdir(p)
            links = {'arrayvalues.bin': 'data.bin', 'arraydescription.json': 'descr.json', 'README.txt': 'readme.txt',
                     'metadata.json': 'meta.json', 'values': 'vdir', 'indices': 'idir'}
        else:
            darr.asarray(p, np.arange(5, dtype='float32'), metadata={'old': True})
            os.unlink(os.path.join(p, 'README.txt'))
            os.unlink(os.path.join(p, 'metadata.json'))
            links = {'README.txt': 'readme.txt', 'metadata.json': 'meta.json'}
        for nm, tgt in links.items():
            os.symlink(os.path.join(ext, tgt), os.path.join(p, nm))
        return p, [ext]
    elif occ == 'dir_foreign':
        os.mkdir(p)
    elif occ == 'array_larger':
        darr.asarray(p, np.arange(4000, dtype='int64'))
    elif occ == 'array_smaller':
        darr.asarray(p, np.arange(1, dtype='int8'))
    foreign = [os.path.join(p, 'notes.txt'), os.path.join(p, 'userdir')]
    with open(foreign[0], 'w') as f:
        f.write('user notes that must survive')
    os.mkdir(foreign[1])
    with open(os.path.join(foreign[1], 'x.bin'), 'wb') as f:
        f.write(b'\x00\x01\x02')
    return p, foreign


def create_case(row, idx):
    import darr
    root = tempfile.mkdtemp(prefix='darrc16c_')
    bad = []
    try:
        p, foreign = build_occupant(root, row['occ'])
        src = darr.asarray(os.path.join(root, 'src'), np.arange(12, dtype='int32').reshape(4, 3), metadata={'s': 1})
        rsrc = darr.asraggedarray(os.path.join(root, 'rsrc'), [[1, 2, 3], [], [4]], dtype='int16')
        arg = p if row['form'] == 'str' else Path(p)
        ow = row['overwrite']
        new = np.arange(7, dtype='uint16') + 100
        calls = {
            'asarray': lambda: darr.asarray(arg, new, overwrite=ow),
            'create_array': lambda: darr.create_array(arg, shape=(3, 2), dtype='int8', fill=7, overwrite=ow),
            'asraggedarray': lambda: darr.asraggedarray(arg, [[9, 8], [7]], dtype='int32', overwrite=ow),
            'create_raggedarray': lambda: darr.create_raggedarray(arg, atom=(2,), dtype='float32', overwrite=ow),
            'copy_array': lambda: src.copy(arg, overwrite=ow),
            'copy_ragged': lambda: rsrc.copy(arg, overwrite=ow),
            'archive': lambda: src.archive(filepath=arg, overwrite=ow),
        }
        before = disk.snapshot(root)
        fbefore = {f: disk.snapshot(f) for f in foreign}
        try:
            res = calls[row['fn']]()
            got = 'ok'
        except Exception as e:
            got = 'Raises'
            res = None
        after = disk.snapshot(root)
        v = row['v']
        if v['out'] == 'Raises' and got != 'Raises':
            bad.append(('outcome', 'raises', 'ok'))
        if v['unchanged'] and before != after:
            bad.append(('existing path', 'byte-identical', disk.snapdiff(before, after)[:4]))
        is_archive_onto_file = row['fn'] == 'archive' and row['occ'] == 'file'
        for f in foreign:
            if is_archive_onto_file and ow:
                continue            # replacing an existing archive FILE is what overwrite=True means for archive()
            if not os.path.lexists(f) or disk.snapshot(f) != fbefore[f]:
                bad.append(('foreign entry ' + os.path.relpath(f, root), 'survives unmodified',
                            'missing' if not os.path.lexists(f) else 'modified'))
        outside = lambda s: {k: x for k, x in s.items() if not (k == 'place' or k.startswith('place/'))}
        if outside(before) != outside(after):
            bad.append(('everything outside the target path', 'unchanged', disk.snapdiff(outside(before), outside(after))[:3]))
        if got == 'ok' and row['fn'] != 'archive':
            # the new occupant must read back as what was created (old, larger data must not shine through)
            try:
                y = darr.open(p)
                okv = True
                if row['fn'] == 'asarray':
                    okv = y[:].tobytes() == new.tobytes() and len(y.metadata) == 0
                elif row['fn'] == 'create_array':
                    okv = y.shape == (3, 2) and (y[:] == 7).all() and len(y.metadata) == 0
                elif row['fn'] == 'asraggedarray':
                    okv = len(y) == 2 and list(y[0]) == [9, 8] and list(y[1]) == [7] and len(y.metadata) == 0
                elif row['fn'] == 'create_raggedarray':
                    okv = len(y) == 0 and y.atom == (2,) and len(y.metadata) == 0
                elif row['fn'] == 'copy_array':
                    okv = y[:].tobytes() == src[:].tobytes() and dict(y.metadata) == {'s': 1}
                elif row['fn'] == 'copy_ragged':
                    okv = len(y) == 3 and list(y[0]) == [1, 2, 3] and len(y[1]) == 0 and len(y.metadata) == 0
                if not okv:
                    bad.append(('new occupant', 'reads back as created', 'different'))
            except Exception as e:
                bad.append(('new occupant', 'opens', repr(e)[:150]))
    finally:
        shutil.rmtree(root, ignore_errors=True)
    return bad


def _job(args):
    kind, rows = args
    out = []
    for (i, row) in rows:
        try:
            bad = delete_case(row, i) if kind == 'delete' else create_case(row, i)
        except Exception:
            bad = [('harness', 'runs', traceback.format_exc()[-600:])]
        out.append((kind, i, bad))
    return out


def run(tier, seed):
    run = Run('C16', tier, seed, 'model_checking')
    rd = tlc.table('DirTree', 'DeleteRows', name='delete')
    rc = tlc.table('DirTree', 'CreateRows', name='create')
    run.add('states', len(rd.rows) + len(rc.rows))
    run.add('transitions', len(rd.rows) + len(rc.rows))
    jobs = []
    dl = list(enumerate(rd.rows))
    cl = list(enumerate(rc.rows))
    for i in range(0, len(dl), 8):
        jobs.append(('delete', dl[i:i + 8]))
    for i in range(0, len(cl), 8):
        jobs.append(('create', cl[i:i + 8]))
    results = []
    with mp.get_context('fork').Pool(16) as pool:
        for x in pool.imap_unordered(_job, jobs):
            results.extend(x)
    for kind, i, bad in results:
        row = (rd.rows if kind == 'delete' else rc.rows)[i]
        run.add('evaluations')
        run.add(kind + '_cases')
        if bad:
            if bad[0][0] == 'harness':
                raise Machinery(bad[0][2])
            if kind == 'delete':
                sig = 'C16|delete|%s|%s|%s|%s|%s' % (row['fn'], row['kind'], row['foreign'], row['loc'], bad[0][0].split(' ')[0])
            else:
                sig = 'C16|create|%s|%s|ow=%s|%s' % (row['fn'], row['occ'], row['overwrite'], bad[0][0].split(' ')[0])
            run.violation(sig, {'case': row, 'problems': bad}, {'kind': 'dirtree-' + kind, 'case': row})
    run.cov['distinct_nontrivial'] = len(rd.rows) + len(rc.rows)
    run.cov['exhaustive'] = True
    run.add('traces_validated_against_impl', len(results))
    run.sample(rd.rows[3])
    run.sample(rc.rows[5])
    run.cov['rule'] = ('delete cases: function x target kind {Array, RaggedArray, plain dir, file, missing} x foreign content '
                       '{none, file, nested dir, symlink to file/dir, directory or symlink carrying a Darr file name} x '
                       'location {top, values/, indices/} x call form {object, str, Path}; creation cases: 7 creating '
                       'functions x previous occupant {Array with metadata, RaggedArray, plain file, other directory, '
                       'larger/smaller array} x overwrite x {str, Path}; verdicts evaluated by TLC from spec/DirTree.tla; '
                       'recursive byte snapshots of the path, its parent and symlink targets around each call')
    run.assumptions += ['a foreign entry whose name collides with a Darr file name must not be followed; its own survival is '
                        'not demanded (DESIGN section 9)']
    return run.finish()
