"""C18: invalid or inconsistent array descriptions are rejected at open time.
spec/OpenCheck.tla is evaluated by TLC over all single-field corruptions x
file-length offsets x array kinds; every row is materialised with several
concrete representatives and opened with the real code."""
import json
import multiprocessing as mp
import os
import random
import shutil
import tempfile
import traceback
import warnings

import numpy as np

from .. import tlc, disk
from ..common import Run, Machinery
from ..concretize import NUMTYPES

warnings.simplefilter('ignore')
ITEM = {nt: np.dtype(nt).itemsize for nt in NUMTYPES}
RETYPED = {'null': [None], 'bool': [True, False], 'int': [3, 0], 'float': [1.5], 'list': [['int32'], []],
           'dict': [{'a': 1}, {}]}


def reps(field, token, base):
    """concrete representatives of a token class for a field; base = valid descr"""
    nt, shape = base['numtype'], list(base['shape'])
    if token in RETYPED and not (field == 'shape' and token in ('list',)):
        return RETYPED[token]
    if field == 'numtype':
        if token == 'badstr':
            return ['int128', 'Int32', '', ' int32', 'float', 'i4', 'bool', 'str']
        if token == 'samesize':
            return [t for t in NUMTYPES if ITEM[t] == ITEM[nt] and t != nt][:2]
        if token == 'smaller':
            return [t for t in NUMTYPES if ITEM[t] < ITEM[nt]][:2]
        if token == 'larger':
            return [t for t in NUMTYPES if ITEM[t] > ITEM[nt]][-2:]
    if field == 'byteorder':
        if token == 'badstr':
            return ['Little', 'LE', '<', 'native', '', 'BIG']
        if token == 'other':
            return ['big' if base['byteorder'] == 'little' else 'little']
    if field == 'shape':
        n = shape[0]
        rest = shape[1:]
        if token == 'str':
            return ['23', str(tuple(shape)), '']
        if token == 'sameprod':
            out = [shape + [1], [1] + shape]
            if len(shape) > 1:
                out.append(shape[::-1])
                out.append([int(np.prod(shape))] if np.prod(shape) else [0])
            return out
        if token == 'longer':
            return [[n + 1] + rest, [n + 2] + rest]
        if token == 'shorter':
            return [[n - 1] + rest] if n >= 1 else []
        if token == 'negative':
            out = [[-n if n else -1] + rest]
            if len(shape) >= 2 and n:
                out.append([-n, -rest[0]] + rest[1:])
            return out
        if token == 'floats':
            return [[float(x) for x in shape]]
        if token == 'strs':
            return [[str(x) for x in shape]]
        if token == 'nulls':
            return [[None] * len(shape)]
        if token == 'nested':
            return [[shape]]
    if field == 'arrayorder':
        if token == 'badstr':
            return ['c', 'f', 'K', 'A', '', 'CF']
        if token == 'F':
            return ['F']
    if field == 'darrversion':
        if token == 'newer':
            return ['99.0.0']
        if token == 'badstr':
            return ['not a version', '']
    if field == 'darrobject':
        if token == 'unknown':
            return ['Matrix', 'array', '']
    raise Machinery('no representative for %s/%s' % (field, token))


FILEREPS = {'notjson': [b'', b'{"numtype": "int32", "sha', b'\xff\xfe\x00', b'{numtype: int32}'],
            'list': [b'[1, 2]', b'[]'], 'number': [b'5', b'1.5'], 'string': [b'"abc"'], 'null': [b'null']}


def make_base(root, kind, nt, bo):
    import darr
    dt = np.dtype(nt).newbyteorder('<' if bo == 'little' else '>')
    if kind in ('oned', 'nd', 'empty'):
        shape = {'oned': (5,), 'nd': (3, 2), 'empty': (0, 2)}[kind]
        a = np.arange(int(np.prod(shape))).reshape(shape).astype(dt)
        p = os.path.join(root, 'a.darr')
        darr.asarray(p, a)
        return p, p
    p = os.path.join(root, 'r.darr')
    items = [np.arange(4).reshape(2, 2).astype(dt), np.zeros((0, 2), dt), np.arange(2).reshape(1, 2).astype(dt)]
    darr.asraggedarray(p, items)
    return p, os.path.join(p, 'values' if kind == 'ragged_values' else 'indices')


def evaluate(job):
    """one row of the table -> list of disagreements"""
    import darr
    idx, row, seed = job
    c = row['c']
    rnd = random.Random(seed * 100003 + idx)
    nt = NUMTYPES[(idx + seed) % len(NUMTYPES)]
    bo = ['little', 'big'][(idx // 13 + seed) % 2]
    out = {'idx': idx, 'ran': 0, 'bad': [], 'skipped': 0, 'raised': 0, 'opened': 0}
    variants = []
    root0 = tempfile.mkdtemp(prefix='darrc18_')
    try:
        top, sub = make_base(root0, c['kind'], nt, bo)
        dpath = os.path.join(sub, 'arraydescription.json')
        base = json.load(open(dpath))
        if c['file'] == 'dict':
            if c['token'] == 'ok':
                variants.append(('ok', None))
            elif c['token'] == 'missing':
                variants.append(('missing', None))
            else:
                for v in reps(c['field'], c['token'], base):
                    variants.append(('set', v))
        elif c['file'] == 'missing':
            variants.append(('nofile', None))
        else:
            for b in FILEREPS[c['file']]:
                variants.append(('rawfile', b))
        if not variants:
            out['skipped'] += 1
        for vi, (how, val) in enumerate(variants):
            root = tempfile.mkdtemp(prefix='darrc18v_')
            try:
                t2 = os.path.join(root, os.path.basename(top))
                shutil.copytree(top, t2)
                s2 = t2 if sub == top else os.path.join(t2, os.path.basename(sub))
                dp = os.path.join(s2, 'arraydescription.json')
                d = dict(base)
                if how == 'missing':
                    d.pop(c['field'], None)
                elif how == 'set':
                    d[c['field']] = val
                if how in ('ok', 'missing', 'set'):
                    with open(dp, 'w') as f:
                        json.dump(d, f)
                elif how == 'nofile':
                    os.unlink(dp)
                else:
                    with open(dp, 'wb') as f:
                        f.write(val)
                vf = os.path.join(s2, 'arrayvalues.bin')
                size = os.path.getsize(vf)
                dl = c['delta']
                if dl == -100000:
                    if size == 0:
                        out['skipped'] += 1
                        continue
                    os.truncate(vf, 0)
                elif dl < 0:
                    if size + dl < 0:
                        out['skipped'] += 1
                        continue
                    os.truncate(vf, size + dl)
                elif dl > 0:
                    with open(vf, 'ab') as f:
                        f.write(b'\0' * dl)
                form = sorted(row.get('forms', ['plain']))[(vi + idx + seed) % len(row.get('forms', ['plain']))]
                if form == 'dotdot':
                    # the array under test lives next to the target of a symbolic link; the path given to Darr goes
                    # through the link and back ('work/lnk/../name'); at the lexically simplified place a valid decoy
                    name = os.path.basename(t2)
                    os.makedirs(os.path.join(root, 'elsewhere', 'sub'))
                    os.makedirs(os.path.join(root, 'work'))
                    real = os.path.join(root, 'elsewhere', name)
                    shutil.move(t2, real)
                    shutil.copytree(top, os.path.join(root, 'work', name))
                    os.symlink(os.path.join(root, 'elsewhere', 'sub'), os.path.join(root, 'work', 'lnk'))
                    t2 = os.path.join(root, 'work', 'lnk', '..', name)
                    s2 = t2 if sub == top else os.path.join(t2, os.path.basename(sub))
                    vf = os.path.join(s2, 'arrayvalues.bin')
                ragged = c['kind'].startswith('ragged')
                exp_array, exp_open = row['array'], (row['array'] if ragged else row['open'])
                calls = []
                if ragged:
                    calls.append(('RaggedArray', lambda: darr.RaggedArray(t2), exp_array))
                    calls.append(('open', lambda: darr.open(t2), exp_open))
                    calls.append(('Array(sub)', lambda: darr.Array(s2), exp_array))
                else:
                    calls.append(('Array', lambda: darr.Array(t2), exp_array))
                    calls.append(('Array r+', lambda: darr.Array(t2, accessmode='r+'), exp_array))
                    calls.append(('open', lambda: darr.open(t2), exp_open))
                for (nm, fn, exp) in calls:
                    out['ran'] += 1
                    try:
                        obj = fn()
                        if nm.startswith('Ragged') or (nm == 'open' and ragged):
                            _ = [obj[k] for k in range(len(obj))]
                        else:
                            _ = obj[:]
                        got = 'Opens'
                        out['opened'] += 1
                    except Exception as e:
                        got = 'Raises'
                        out['raised'] += 1
                    if exp == 'Raises' and got != 'Raises':
                        out['bad'].append({'opener': nm, 'expected': exp, 'got': got, 'how': how, 'path_form': form,
                                           'value': repr(val)[:80], 'numtype': nt, 'byteorder': bo,
                                           'descr': {k: d.get(k) for k in ('numtype', 'byteorder', 'shape', 'arrayorder')} if how in ('ok', 'missing', 'set') else None,
                                           'filesize': os.path.getsize(vf)})
                    if exp == 'Opens' and got != 'Opens':
                        out.setdefault('valid_rejected', []).append({'opener': nm, 'how': how, 'value': repr(val)[:80]})
                # by-path delete / truncate must refuse what cannot be opened
                if exp_array == 'Raises':
                    before = disk.snapshot(root)
                    if ragged:
                        bypath = [('delete_raggedarray', lambda: darr.delete_raggedarray(t2)),
                                  ('truncate_raggedarray', lambda: darr.truncate_raggedarray(t2, 1)),
                                  ('delete_array(sub)', lambda: darr.delete_array(s2)),
                                  ('truncate_array(sub)', lambda: darr.truncate_array(s2, 1))]
                    else:
                        bypath = [('delete_array', lambda: darr.delete_array(t2)),
                                  ('truncate_array', lambda: darr.truncate_array(t2, 1)),
                                  ('delete_array(Path)', lambda: darr.delete_array(__import__('pathlib').Path(t2)))]
                    for (nm, fn) in bypath:
                        out['ran'] += 1
                        try:
                            fn()
                            cls = 'ok'
                        except TypeError:
                            cls = 'TypeError'
                        except Exception as e:
                            cls = type(e).__name__
                        after = disk.snapshot(root)
                        df = disk.snapdiff(before, after)
                        if cls != 'TypeError' or df:
                            out['bad'].append({'opener': nm, 'expected': 'TypeError and unchanged',
                                               'got': cls, 'changed': df[:3], 'how': how, 'value': repr(val)[:80],
                                               'numtype': nt})
                            break
            finally:
                shutil.rmtree(root, ignore_errors=True)
    finally:
        shutil.rmtree(root0, ignore_errors=True)
    return out


def _job(batch):
    out = []
    for j in batch:
        try:
            out.append(evaluate(j))
        except Exception:
            out.append({'error': traceback.format_exc(), 'idx': j[0]})
    return out


def run(tier, seed):
    run = Run('C18', tier, seed, 'model_checking')
    r = tlc.table('OpenCheck', 'Rows', name='opencheck')
    rows = r.rows
    run.add('states', len(rows))
    run.add('transitions', len(rows))
    run.cov['tlc_table_rows'] = len(rows)
    reps_n = 3 if tier == 'thorough' else 1
    jobs = [(i, row, seed + k) for k in range(reps_n) for i, row in enumerate(rows)]
    batches = [jobs[i:i + 25] for i in range(0, len(jobs), 25)]
    results = []
    with mp.get_context('fork').Pool(16) as pool:
        for rr in pool.imap_unordered(_job, batches):
            results.extend(rr)
    validrej = 0
    for res in results:
        if 'error' in res:
            raise Machinery('case failed: ' + res['error'])
        row = rows[res['idx']]
        c = row['c']
        run.add('evaluations', res['ran'])
        run.add('raised', res['raised'])
        run.add('opened', res['opened'])
        run.add('skipped_inapplicable', res['skipped'])
        validrej += len(res.get('valid_rejected', []))
        for b in res['bad']:
            sig = 'C18|%s|file=%s|%s=%s|delta=%s|%s' % (c['kind'], c['file'], c['field'], c['token'],
                                                     'neg' if c['delta'] < 0 else ('pos' if c['delta'] > 0 else '0'),
                                                     b['opener'].split('(')[0])
            run.violation(sig, {'case': c, **b}, {'kind': 'opencheck', 'case': c, 'row': row})
    base_ok = [x for x in results if rows[x['idx']]['array'] == 'Opens' and not x.get('valid_rejected')]
    if not base_ok:
        raise Machinery('no valid base case opened: the harness does not build openable arrays')
    run.cov['valid_descriptions_rejected'] = validrej
    run.cov['distinct_nontrivial'] = len(rows)
    run.add('traces_validated_against_impl', len(results))
    for row in rows[:3]:
        run.sample(row)
    run.cov['exhaustive'] = True
    run.cov['rule'] = ('rows = all single-field corruptions x length offsets x array kinds enumerated and judged by TLC '
                       'from spec/OpenCheck.tla; each row materialised with concrete representatives (rotating '
                       'numtype/byte order) and opened with Array(), darr.open(), RaggedArray(); rejected cases are '
                       'also given to delete/truncate by path with a byte snapshot around the call')
    run.assumptions += ['ambiguities resolved towards not alarming: darrversion oddities and bool inside shape are not '
                        'demanded to be rejected (DESIGN section 9)']
    return run.finish()
