from . import arrayhist


def run(tier, seed):
    return arrayhist.run_check('C09', tier, seed, 'fault')
