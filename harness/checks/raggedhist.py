"""C04 C05 C10 and the ragged parts of C08 C11: histories of spec/Ragged.tla
replayed into darr.RaggedArray."""
import random

from .. import raggedmodel as rm
from .. import tlc, walk, tour, disk
from ..common import Run, Machinery
from ..arraymodel import NONINT


class Binding:
    expected_view = staticmethod(rm.expected_view)
    ALL = ('C04', 'C05', 'C08')
    MUTATING = ('RA_Call', 'RA_CallBadAppend', 'RT_Call', 'Delete')

    def __init__(self, configs):
        self.configs = configs

    def make_session(self, cfgi, m, path=None):
        c = self.configs[cfgi % len(self.configs)]
        rc = rm.RConfig(c.v.numtype, c.v.byteorder, c.v.tail, c.indextype, c.v.form, c.v.valset, c.block,
                        seed=c.seed + cfgi)
        return rm.Session(rc)

    def before(self, sess, m):
        return disk.snapshot(sess.path)

    def compare(self, p, exp, obs, obs_out, sess=None, pre=None, macro=None, src=None):
        if p == 'C11':
            mm = []
            if src['mode'] == 'r' and macro.name in self.MUTATING:
                post = disk.snapshot(sess.path)
                df = disk.snapdiff(pre, post)
                if obs_out == 'ok':
                    mm.append(('out', 'raises', 'ok'))
                if not obs.get('exists'):
                    mm.append(('directory', 'byte-identical', 'removed'))
                elif df:
                    mm.append(('directory', 'byte-identical', df[:4]))
            elif src['mode'] == 'r+' and macro.name in self.MUTATING:
                if (exp['out'] == 'ok') != (obs_out == 'ok'):
                    mm.append(('out in r+', exp['out'], obs_out))
            if obs.get('exists') and obs['live'].get('mode') != exp['mode']:
                mm.append(('accessmode', exp['mode'], obs['live'].get('mode')))
            return mm
        return rm.compare(p, exp, obs, obs_out, sess=sess)


def edge_class(m, src):
    n = len(src['ref'])
    start = 'empty' if n == 0 else ('emptyvalues' if not any(len(x) for x in src['ref']) else 'nonempty')
    if m.name == 'RA_Call':
        cs, f, via = m.args
        zero = any(len(c) == 0 for c in cs)
        return 'append:%s:fault=%s:start=%s:items=%s:zerolen=%s:mode=%s' % (
            via, f.get('kind'), start, min(len(cs), 2), zero, src['mode'])
    if m.name == 'RA_CallBadAppend':
        return 'append:bad=%s:start=%s:mode=%s' % (m.args[0], start, src['mode'])
    if m.name == 'RT_Call':
        i = m.args[0]
        kind = 'nonint' if i == NONINT else ('neg' if i < 0 else 'nonneg')
        removes_only_empty = False
        if i != NONINT:
            nl = max(0, n + i) if i < 0 else min(i, n)
            if 0 <= nl < n:
                removes_only_empty = all(len(x) == 0 for x in src['ref'][nl:])
        return 'truncate:%s:start=%s:onlyempty=%s:mode=%s' % (kind, start, removes_only_empty, src['mode'])
    return '%s:start=%s:mode=%s' % (m.name, start, src['mode'])


def report(run, prop, mg, macros, results, kind):
    n = 0
    for r in results:
        if 'error' in r and 'mism' not in r:
            raise Machinery('harness error while replaying %s: %s' % (kind, r['error']))
        if 'skipped' in r:
            run.add('skipped_unisolatable_faults')
            continue
        n += 1
        mm = r.get('mism', {}).get(prop)
        if mm:
            if kind == 'edge':
                m = macros[r['idx']]
                src = mg.rep[m.src]
                sig = '%s|ragged|%s|%s' % (prop, edge_class(m, src), mm[0][0])
                run.violation(sig, {'edge': m.label(), 'from_ref': src['ref'], 'mode': src['mode'], 'mismatch': mm,
                                    'config': r['cfg'], 'out': r.get('out'), 'exc': r.get('exc')},
                              {'kind': 'ragged-edge', 'from': src, 'name': m.name, 'args': m.args, 'config': r['cfg']})
            else:
                sig = '%s|ragged|path|%s|%s' % (prop, r.get('label', '?').split('(')[0], mm[0][0])
                run.violation(sig, {'path': r['labels'][:r.get('at', 0) + 1], 'mismatch': mm, 'config': r['cfg'],
                                    'out': r.get('out'), 'exc': r.get('exc')},
                              {'kind': 'ragged-path', 'labels': r['labels'], 'config': r['cfg']})
    return n


FAMILIES = {
    'data': dict(over=dict(), invs=['WellFormedRagged', 'Model_Ragged', 'Readme_Current', 'TypeOK'],
                 need=['RA_Call', 'RA_VWrite', 'RA_IWrite', 'RT_IOsTruncate', 'RT_VOsTruncate', 'TR_Write', 'TD_Write']),
    'fault': dict(over=dict(Ops=['append', 'truncate'], Faults=True, TruncArgs=[0, 1, -1], MaxSub=3,
                            InitRefs=[(), ((1,), (2, 1))]),
                  invs=['WellFormedRagged', 'Model_Ragged', 'Readme_Current', 'FailedAppendExact', 'TypeOK'],
                  need=['RA_Call', 'RA_CallBadAppend', 'RA_RollbackV', 'RA_RollbackI', 'RA_VWrite']),
    'overflow': dict(over=dict(Ops=['append', 'truncate'], IdxMax=3, TruncArgs=[0, 1], MaxSub=3,
                               InitRefs=[(), ((1, 2),)]),
                     invs=['WellFormedRagged', 'Model_Ragged', 'FailedAppendExact', 'TypeOK'],
                     need=['RA_Call', 'RA_RollbackV', 'RA_IWrite']),
    # operations inside ra.open_arrays() contexts / with a suspended iter_arrays generator holding the maps
    'ctx': dict(over=dict(Ops=['append', 'truncate', 'mode', 'reopen', 'ctx'], RowIds=[1], MaxSub=4, MaxItems=1, MaxItemLen=1,
                          TruncArgs=[0, 1, -1], InitRefs=[(), ((1,), ())], InitModes=['r+']),
                invs=['WellFormedRagged', 'Model_Ragged', 'Readme_Current', 'TypeOK'],
                need=['EnterCtx', 'ExitCtx', 'RA_VWrite', 'RA_IWrite', 'RT_IOsTruncate', 'TR_Write']),
    'readme': dict(over=dict(RowIds=[1], MaxSub=8, MaxItemLen=1, MaxItems=2, TruncArgs=[0, 5, 6, -1, -2],
                             Ops=['append', 'truncate'], InitRefs=[(), ((1,), (), (1,), (1,), ())]),
                   invs=['WellFormedRagged', 'Model_Ragged', 'Readme_Current', 'TypeOK'],
                   need=['RA_Call', 'TR_Write', 'RT_IOsTruncate']),
}


ENV_PROPS = ('C02', 'C05', 'C08', 'C09', 'C10', 'C13')
ENV_FAMILIES = ('data', 'meta', 'fault', 'readme')


def run_family(run, prop, tier, seed, family):
    thorough = tier == 'thorough'
    rnd = random.Random(seed)
    fam = FAMILIES[family]
    over = dict(fam['over'])
    if prop == 'C11':
        over['InitModes'] = ['r+', 'r']
    if family == 'readme' and not thorough:
        over.update(MaxSub=7, MaxItems=1, TruncArgs=[5, 6, -1], InitRefs=[((1,), (), (1,), (1,), ())])
    if family == 'fault' and not thorough:
        over.update(MaxSub=2, InitRefs=[(), ((2, 1),)])
    if family == 'data':
        over.update(MaxSub=3 if thorough else 2)
        if not thorough:
            over.update(InitRefs=[(), ((1, 2), ())], TruncArgs=[-3, -2, -1, 0, 1, 2, 3])
    r, g = rm.run_instance('%s_r%s' % (prop, family), invariants=fam['invs'], properties=('ReadOnly',), **over)
    tlc.check_coverage(r, fam['need'], 'MC_%s_r%s' % (prop, family))
    run.tlc('Ragged_%s' % family, r)
    mg = walk.MacroGraph(g, rm.quiescent, forget=('out',))
    rm.obs_tables(3)
    run.add('macro_edges', mg.nmacros())
    run.add('quiescent_states', len(mg.rep))
    ncfg = 130 if thorough else 52
    configs = rm.pick_rconfigs(ncfg, seed, overflow=(family == 'overflow'))
    b = Binding(configs)
    props = [prop]
    select = None
    if not thorough and mg.nmacros() > 2500:
        # quick tier: stratified sample, at most `cap` macro-edges per edge class
        cap = 3 if family == 'ctx' else 8
        allm = list(mg.all_macros())
        rnd.shuffle(allm)
        seen = {}
        keep = set()
        for m in allm:
            c = edge_class(m, mg.rep[m.src])
            if seen.get(c, 0) < cap:
                seen[c] = seen.get(c, 0) + 1
                keep.add(id(m))
        select = lambda m: id(m) in keep
        run.cov['exhaustive_over_macro_edges'] = False
        run.add('edge_classes_sampled', len(seen))
    macros, res = tour.edge_tour(b, mg, props, ncfg, per_edge=(3 if thorough else 1), seed=seed, select=select)
    n1 = report(run, prop, mg, macros, res, 'edge')
    run.add('edge_replays', n1)
    npaths, plen = (1200, 25) if thorough else (120, 10)
    if family in ('overflow', 'ctx'):
        npaths //= 3
    paths = []
    for i in range(npaths):
        start = rnd.choice(mg.init)
        p = mg.random_path(rnd, plen, start=start)
        if p:
            paths.append((start, p))
    if thorough and family == 'data':
        for s in mg.init:
            compact = lambda m: not (m.name == 'RA_Call' and (len(m.args[0]) > 1)) \
                and not (m.name == 'RT_Call' and abs(m.args[0]) > 2 and m.args[0] != NONINT)
            for p in mg.paths_upto(3, s, limit=15000, select=compact):
                paths.append((s, p))
    if prop == 'C11':
        for k, ms in mg.out.items():
            if mg.rep[k]['mode'] != 'r':
                continue
            sw = [m for m in ms if m.name == 'SetMode' and m.args[0] == 'r+']
            if not sw:
                continue
            k2 = mg.dst_key(sw[0].dsts[0])
            for m in ms:
                if m.name in Binding.MUTATING:
                    again = [x for x in mg.out.get(k2, []) if x.name == m.name and x.args == m.args]
                    if again:
                        paths.append((k, [m, sw[0], again[0]]))
        rnd.shuffle(paths)
        if not thorough:
            paths = paths[:700]
    pres = tour.path_tour(b, mg, props, paths, ncfg, seed=seed)
    n2 = report(run, prop, mg, None, pres, 'path')
    run.add('paths_replayed', n2)
    run.add('path_steps', sum(x.get('steps', 0) for x in pres))
    if prop in ENV_PROPS and family in ENV_FAMILIES and (thorough or not run.cov.get('ascii_locale_child_ragged')):
        # (quick tier: once per check run - the first family of the Array side and of the ragged side)
        # the same paths in an interpreter whose default text encoding is ASCII (LC_ALL=C without UTF-8 mode):
        # nothing Darr writes or reads may depend on the locale of the process
        sub = paths[:(400 if thorough else 48)]
        info, eres = tour.env_path_tour(b, mg, props, sub, ncfg, tour.ASCII_ENV, seed=seed)
        if info['utf8_mode'] or 'UTF' in info['encoding'].upper():
            raise Machinery('the ASCII-locale child runs with %r' % (info,))
        for x in eres:
            for pp in list(x.get('mism', {})):
                x['mism'][pp] = [('locale=C:' + str(mm[0]),) + tuple(mm[1:]) for mm in x['mism'][pp]]
        n3 = report(run, prop, mg, None, eres, 'path')
        run.add('paths_replayed_under_ascii_locale', n3)
        run.cov['ascii_locale_child_ragged'] = info
    run.add('traces_validated_against_impl', n1 + n2)
    run.add('configurations', len({tuple(sorted((k, str(v)) for k, v in x['cfg'].items())) for x in res if 'cfg' in x}))
    for x in res[:2]:
        run.sample({'edge': x.get('label'), 'config': x.get('cfg'), 'out': x.get('out')})
    for x in pres[:1]:
        run.sample({'path': x.get('labels'), 'config': x.get('cfg')})


def run_check(prop, tier, seed, families, run=None, finish=True):
    run = run or Run(prop, tier, seed, 'model_checking')
    for family in families.split('+'):
        run_family(run, prop, tier, seed, family)
    if prop in ('C04', 'C05', 'C08', 'C10'):
        # code -> spec: long random ragged histories validated by TLC (spec/TraceRagged.tla)
        from .. import rtracecheck
        rtracecheck.run_random(run, prop, 1500 if tier == 'thorough' else 80, 50 if tier == 'thorough' else 30, seed)
    run.cov.setdefault('exhaustive_over_macro_edges', True)
    run.cov.setdefault('rule', '')
    run.cov['rule'] += (' Ragged: every macro-edge of the TLC state graph of spec/Ragged.tla (append, iterappend with fault '
                        'plans, truncate_raggedarray, mode, reopen) is executed on the real darr.RaggedArray; values/, '
                        'indices/ and the top-level files are decoded without Darr and compared with the spec target, as '
                        'are the live and a fresh handle (every ra[k], iter_arrays over TLC-evaluated cases). Long random ragged histories '
                        '(up to 7 initial subarrays, iterappends of up to 4 items, faults) are recorded and validated by TLC against '
                        'spec/TraceRagged.tla with a corrupted record as control.')
    run.assumptions += ['TLC results are exhaustive only for the instance constants recorded under tlc_instances',
                        'NumPy is the reference for np.asarray(item, dtype)']
    if finish:
        return run.finish()
    return run
