"""C14: chunk iteration yields exactly the specified frames.
spec/Frames.tla: TLC checks DeclEqAlg and ChunksConcatenate and evaluates the
expected frames for every parameter tuple up to N; the real iterindices /
iterchunks / fit_frames are compared row by row."""
import multiprocessing as mp
import os
import random
import shutil
import tempfile
import traceback
import warnings

import numpy as np

from .. import tlc
from ..common import Run, Machinery

warnings.simplefilter('ignore')
NONE_V = -999999
_CTX = {}


def _opt(v):
    return None if v == NONE_V else v


def _job(args):
    import darr
    ns, rows, seed = args
    out = {'ran': 0, 'bad': [], 'chunks': 0, 'valueerrors': 0}
    root = tempfile.mkdtemp(prefix='darrc14_')
    try:
        arrays = {}
        for row in rows:
            n = row['n']
            if n not in arrays:
                tail = [(), (2,), (3, 2)][n % 3]
                dt = ['int32', '>f8', '<u2', 'complex64'][n % 4]
                ref = (np.arange(n * int(np.prod(tail)) if tail else n) + 1).reshape((n,) + tail).astype(dt)
                a = darr.asarray(os.path.join(root, 'a%d' % n), ref)
                arrays[n] = (a, ref)
            a, ref = arrays[n]
            kw = {'chunklen': row['c'], 'stepsize': _opt(row['s']), 'startindex': _opt(row['st']),
                  'endindex': _opt(row['en']), 'include_remainder': row['rem']}
            # the integer arguments also come as NumPy integers of several widths (same values)
            out['nform'] = out.get('nform', seed) + 1
            t = [None, None, np.int64, None, np.uint8, None, np.int16, np.uint64, None, np.int8, np.intp, np.uint16][out['nform'] % 12]
            if t is not None:
                for key in ('chunklen', 'stepsize', 'startindex', 'endindex'):
                    v = kw[key]
                    if isinstance(v, int) and not isinstance(v, bool) and np.iinfo(t).min <= v <= np.iinfo(t).max:
                        kw[key] = t(v)
            exp = 'ValueError' if row['res'] == [[-1, -1]] else [tuple(x) for x in row['res']]
            try:
                got = [tuple(int(v) for v in x) for x in a.iterindices(**kw)]
            except ValueError:
                got = 'ValueError'
            except Exception as e:
                got = type(e).__name__
            out['ran'] += 1
            if exp == 'ValueError':
                out['valueerrors'] += 1
            npform = any(isinstance(v, np.integer) for v in kw.values())
            if npform and isinstance(got, str) and got != exp:
                # NumPy integers may be refused (any exception); if they are accepted the frames must be right
                out['refused_numpy_int'] = out.get('refused_numpy_int', 0) + 1
                continue
            if got != exp:
                out['bad'].append({'call': 'iterindices', 'n': n, 'args': {k: (v.item() if isinstance(v, np.generic) else v) for k, v in kw.items()},
                                   'forms': {k: type(v).__name__ for k, v in kw.items()}, 'expected': exp, 'got': got})
                continue
            # iterchunks: detached copies of a[frame] for the same frames
            try:
                chunks = list(a.iterchunks(**kw))
                gotc = 'ok'
            except ValueError:
                gotc = 'ValueError'
                chunks = None
            except Exception as e:
                gotc = type(e).__name__
                chunks = None
            if exp == 'ValueError':
                if gotc != 'ValueError' and not (npform and chunks is None):
                    out['bad'].append({'call': 'iterchunks', 'n': n, 'args': kw, 'expected': exp, 'got': gotc})
                continue
            if npform and chunks is None:
                out['refused_numpy_int'] = out.get('refused_numpy_int', 0) + 1
                continue
            if chunks is None or len(chunks) != len(exp):
                out['bad'].append({'call': 'iterchunks', 'n': n, 'args': kw, 'expected': '%d chunks' % len(exp),
                                   'got': gotc if chunks is None else '%d chunks' % len(chunks)})
                continue
            for (s, e), ch in zip(exp, chunks):
                out['chunks'] += 1
                r = ref[s:e]
                if ch.shape != r.shape or ch.dtype != r.dtype or ch.tobytes() != r.tobytes() or \
                        not ch.flags.owndata or isinstance(ch, np.memmap):
                    out['bad'].append({'call': 'iterchunks', 'n': n, 'args': kw, 'frame': (s, e),
                                       'expected': 'detached copy of a[%d:%d]' % (s, e),
                                       'got': {'shape': ch.shape, 'dtype': str(ch.dtype), 'owndata': bool(ch.flags.owndata)}})
                    break
            s_ = kw['stepsize'] if kw['stepsize'] is not None else kw['chunklen']
            if kw['include_remainder'] and s_ == kw['chunklen'] and chunks:
                st = kw['startindex'] or 0
                en = kw['endindex'] if kw['endindex'] is not None else n
                cat = np.concatenate(chunks, axis=0)
                if cat.astype(ref.dtype).tobytes() != ref[st:en].tobytes():
                    out['bad'].append({'call': 'iterchunks', 'n': n, 'args': kw,
                                       'expected': 'chunks concatenate to a[%d:%d]' % (st, en), 'got': 'different'})
    finally:
        shutil.rmtree(root, ignore_errors=True)
    return out


def _fit(rows):
    from darr.utils import fit_frames
    bad = []
    ran = 0
    for row in rows:
        t, c, s = row['total'], row['chunk'], _opt(row['step'])
        exp = 'ValueError' if row['res'] == [-1] else tuple(row['res'])
        for conv in (int, float):
            args = dict(totallen=conv(t), chunklen=conv(c))
            if s is not None:
                args['steplen'] = conv(s)
            try:
                got = fit_frames(**args)
                got = tuple(got)
                ints = all(float(x).is_integer() for x in got)
                got = tuple(int(x) for x in got) if ints else got
            except ValueError:
                got = 'ValueError'
            except Exception as e:
                got = type(e).__name__
            ran += 1
            if got != exp:
                bad.append({'call': 'fit_frames', 'args': args, 'expected': exp, 'got': got})
        # non-integral floats must be refused
        for bargs in (dict(totallen=t + 0.5, chunklen=max(c, 1)), dict(totallen=t, chunklen=c + 0.5)):
            try:
                fit_frames(**bargs)
                bad.append({'call': 'fit_frames', 'args': bargs, 'expected': 'ValueError', 'got': 'no error'})
            except ValueError:
                pass
            except Exception as e:
                bad.append({'call': 'fit_frames', 'args': bargs, 'expected': 'ValueError', 'got': type(e).__name__})
            ran += 1
    return ran, bad


def run(tier, seed):
    run = Run('C14', tier, seed, 'model_checking')
    thorough = tier == 'thorough'
    N = 9 if thorough else 6
    r = tlc.table('Frames', 'Rows(%d)' % N, defs='ASSUME DeclEqAlg(%d)\nASSUME ChunksConcatenate(%d)' % (N + 1, N + 1),
                  name='frames', heap='8g', timeout=1500)
    rows = r.rows
    run.add('states', len(rows))
    run.add('transitions', len(rows))
    run.cov['tlc_assumes'] = ['DeclEqAlg(%d)' % (N + 1), 'ChunksConcatenate(%d)' % (N + 1)]
    rf = tlc.table('Frames', 'FitRows(%d)' % (N + 2), name='fit')
    byn = {}
    for row in rows:
        byn.setdefault(row['n'], []).append(row)
    jobs = []
    for n, rs in byn.items():
        for i in range(0, len(rs), 1500):
            jobs.append(([n], rs[i:i + 1500], seed))
    results = []
    with mp.get_context('fork').Pool(16) as pool:
        for x in pool.imap_unordered(_job, jobs):
            results.append(x)
    nbad = 0
    for res in results:
        run.add('evaluations', res['ran'])
        run.add('chunks_compared', res['chunks'])
        run.add('valueerror_rows', res['valueerrors'])
        for b in res['bad']:
            a = b.get('args', {})
            st = a.get('startindex')
            cls = 'negstart' if (st if isinstance(st, (int, float)) else 0) < 0 else (
                'remainder' if a.get('include_remainder') else 'noremainder')
            sig = 'C14|%s|%s|%s' % (b['call'], cls, 'expectValueError' if b['expected'] == 'ValueError' else 'frames')
            run.violation(sig, b, {'kind': 'frames', 'case': b})
    ran, bad = _fit(rf.rows)
    run.add('evaluations', ran)
    for b in bad:
        run.violation('C14|fit_frames|%s' % ('expectValueError' if b['expected'] == 'ValueError' else 'triple'), b,
                      {'kind': 'fit', 'case': b})
    # random large tuples, expected values again from TLC (same operators)
    rnd = random.Random(seed)
    big = []
    for _ in range(400 if thorough else 60):
        n = rnd.randrange(50, 4000)
        c = rnd.randrange(1, n + 50)
        s = rnd.choice([NONE_V, rnd.randrange(1, n + 10)])
        st = rnd.randrange(0, n)
        en = rnd.randrange(st + 1, n + 1)
        big.append((n, c, s, st, en, rnd.choice(['TRUE', 'FALSE'])))
    expr = '{' + ', '.join('[n |-> %d, c |-> %d, s |-> %d, st |-> %d, en |-> %d, rem |-> %s, '
                           'res |-> IterIndices(%d, %d, %d, %d, %d, %s)]' % (t + t) for t in big) + '}'
    rb = tlc.table('Frames', expr, name='framesbig', heap='4g')
    resb = _job(([0], rb.rows, seed))
    run.add('evaluations', resb['ran'])
    run.add('large_random_tuples', len(rb.rows))
    for b in resb['bad']:
        run.violation('C14|%s|large' % b['call'], b, {'kind': 'frames', 'case': b})
    run.cov['distinct_nontrivial'] = len(rows) + len(rf.rows)
    run.add('traces_validated_against_impl', len(rows) + len(rf.rows) + len(rb.rows))
    run.cov['exhaustive'] = True
    run.cov['bound_N'] = N
    for row in rows[5000:5003]:
        run.sample(row)
    run.cov['rule'] = ('all (n, chunklen, stepsize|None, startindex|None, endindex|None, include_remainder) with n <= N '
                       '(incl. invalid ones) evaluated by TLC from the declarative definition in spec/Frames.tla; real '
                       'iterindices, iterchunks (bytes, dtype, detachment, concatenation) and fit_frames (ints and '
                       'integral floats, non-integral floats refused) compared row by row')
    return run.finish()
