"""C12: indexing reads and writes follow NumPy semantics, as detached copies,
durably; nothing is left open.  spec/Indexing.tla (TLC-evaluated table of
selected positions / IndexError) + lifecycle observations on the real object."""
import multiprocessing as mp
import random
import os
import shutil
import tempfile
import traceback
import warnings

import numpy as np

from .. import tlc
from ..common import Run, Machinery

warnings.simplefilter('ignore')
NONE = -999999

ITEMS = '''Items == {I(-3), I(-1), I(0), I(1), I(2), I(3), S(NoneV,NoneV,NoneV), S(1,NoneV,NoneV), S(NoneV,-1,NoneV),
  S(NoneV,NoneV,2), S(NoneV,NoneV,-1), S(2,0,-1), S(5,9,NoneV), S(-2,NoneV,NoneV), Ell, New,
  L(<<0>>), L(<<1,0>>), L(<<-1,-1>>), L(<<2,5>>), M(<<TRUE,FALSE,TRUE>>), M(<<FALSE,FALSE>>), M(<<TRUE,TRUE>>)}
'''
DTYPES = ['<i4', '>f8', '<u1', '>c8', '<f2', '>i8', '<u2']


def conv(it):
    t = it['t']
    if t == 'int':
        return it['v']
    if t == 'slice':
        return slice(*[None if x == NONE else x for x in (it['a'], it['b'], it['c'])])
    if t == 'ell':
        return Ellipsis
    if t == 'new':
        return None
    if t == 'list':
        return list(it['v'])
    if t == 'mask':
        return np.array(it['v'], dtype=bool)
    raise ValueError(t)


def open_handles(datapath):
    """file descriptors and memory maps of this process that refer to datapath"""
    n = 0
    for fd in os.listdir('/proc/self/fd'):
        try:
            if os.readlink('/proc/self/fd/' + fd) == datapath:
                n += 1
        except OSError:
            pass
    with open('/proc/self/maps') as f:
        for line in f:
            if datapath in line:
                n += 1
    return n


def ref_array(shape, dt):
    n = int(np.prod(shape))
    return np.arange(n).reshape(shape).astype(dt)


def _job(args):
    import darr
    rows, seed, k0 = args
    out = {'ran': 0, 'bad': [], 'reads': 0, 'writes': 0, 'errors': 0, 'detach': 0}
    root = tempfile.mkdtemp(prefix='darrc12_')
    try:
        cache = {}
        for ri, row in enumerate(rows):
            shape = tuple(row['shape'])
            dt = DTYPES[(ri + k0 + seed) % len(DTYPES)]
            key = (shape, dt)
            if key not in cache:
                ref = ref_array(shape, dt)
                p = os.path.join(root, 'a%d' % len(cache))
                a = darr.asarray(p, ref, accessmode='r+')
                cache[key] = (a, ref, os.path.join(p, 'arrayvalues.bin'))
            a, ref, dpath = cache[key]
            idx = tuple(conv(i) for i in row['idx'])
            if len(idx) == 1 and (ri % 2):
                idx = idx[0]          # a[i] as well as a[(i,)]
            exp = row['res']
            # ---- read, outside and inside a context
            for inside in (False, True):
                try:
                    if inside:
                        with a.open_array():
                            v = a[idx]
                    else:
                        v = a[idx]
                    got = {'shape': list(v.shape), 'pos': [int(x) for x in np.real(v).flatten()]}
                    extra = None
                    if v.dtype != np.asarray(ref[idx]).dtype:   # the reference's dtype (scalars are native)
                        extra = 'dtype %s' % v.dtype
                    elif isinstance(v, np.memmap) or not v.flags.owndata or v.base is not None:
                        extra = 'not a detached copy (memmap=%s owndata=%s)' % (isinstance(v, np.memmap), v.flags.owndata)
                except IndexError:
                    got, extra = {'err': 'IndexError'}, None
                except Exception as e:
                    got, extra = {'err': type(e).__name__}, None
                out['ran'] += 1
                out['reads'] += 1
                if 'err' in exp:
                    out['errors'] += 1
                if got != exp or extra:
                    out['bad'].append({'op': 'getitem', 'inside_context': inside, 'shape': shape, 'idx': repr(idx),
                                       'expected': exp, 'got': got, 'extra': extra, 'dtype': dt})
                    break
                if open_handles(dpath):
                    out['bad'].append({'op': 'getitem', 'shape': shape, 'idx': repr(idx), 'leak': open_handles(dpath),
                                       'expected': 'no descriptor or map left open', 'got': 'left open'})
                    break
            # ---- write: scalar, and a full-shape value when positions are unique
            if shape and int(np.prod(shape)):
                with open(dpath, 'r+b') as f:
                    f.write(ref.tobytes())
            for mode in ('scalar', 'shaped'):
                expa = ref.copy()
                if 'err' not in exp:
                    pos = exp['pos']
                    if mode == 'shaped':
                        if len(set(pos)) != len(pos) or len(pos) == 0:
                            continue
                        val = (np.arange(len(pos)) + 100).reshape(exp['shape']).astype('int16')
                        expa.flat[pos] = val.flatten().astype(ref.dtype)
                    else:
                        val = 77
                        if pos:
                            expa.flat[pos] = 77
                else:
                    if mode == 'shaped':
                        continue
                    val = 77
                try:
                    a[idx] = val
                    got = 'ok'
                except IndexError:
                    got = 'IndexError'
                except Exception as e:
                    got = type(e).__name__
                out['ran'] += 1
                out['writes'] += 1
                want = 'IndexError' if 'err' in exp else 'ok'
                with open(dpath, 'rb') as f:
                    raw = f.read()
                fresh = darr.Array(os.path.dirname(dpath))[:]
                if got != want or raw != expa.tobytes() or fresh.tobytes() != expa.tobytes() or \
                        a[:].tobytes() != expa.tobytes():
                    out['bad'].append({'op': 'setitem-' + mode, 'shape': shape, 'idx': repr(idx), 'expected': want,
                                       'got': got, 'file_equal': raw == expa.tobytes(),
                                       'fresh_equal': fresh.tobytes() == expa.tobytes(), 'dtype': dt})
                    break
                if open_handles(dpath):
                    out['bad'].append({'op': 'setitem', 'shape': shape, 'idx': repr(idx),
                                       'expected': 'no descriptor or map left open', 'got': 'left open'})
                    break
                if int(np.prod(shape)):
                    with open(dpath, 'r+b') as f:
                        f.write(ref.tobytes())
        # ---- detachment: results stay valid and unchanged whatever happens to the file
        for (shape, dt), (a, ref, dpath) in list(cache.items()):
            if not int(np.prod(shape)):
                continue
            big = darr.asarray(os.path.join(root, 'big'), np.arange(600000, dtype='int64'), accessmode='r+',
                               overwrite=True)
            bpath = os.path.join(root, 'big', 'arrayvalues.bin')
            parts = [big[1000:500000], big[::7], big[[5, 599999]], big[...]]
            keep = [p.copy() for p in parts]
            v = a[...]
            k = v.copy()
            with open(bpath, 'r+b') as f:
                f.write(b'\xff' * 4800000)
            os.truncate(bpath, 8)
            shutil.rmtree(os.path.join(root, 'big'))
            okd = all(np.array_equal(p, q) for p, q in zip(parts, keep)) and np.array_equal(v, k)
            out['detach'] += 1
            if not okd:
                out['bad'].append({'op': 'detachment', 'expected': 'result unchanged after file overwritten/truncated/deleted',
                                   'got': 'changed'})
            break
    finally:
        shutil.rmtree(root, ignore_errors=True)
    return out


def numpy_oracle(seed):
    """index forms outside the modelled grammar: NumPy on the reference array
    is the oracle, as the property says"""
    import darr
    root = tempfile.mkdtemp(prefix='darrc12o_')
    bad = []
    n = 0
    try:
        for shape in ((4,), (3, 4), (2, 3, 2), (0, 2)):
            ref = ref_array(shape, DTYPES[(seed + len(shape)) % len(DTYPES)])
            a = darr.asarray(os.path.join(root, 'o%d' % len(shape) + str(shape[0])), ref, accessmode='r+')
            exprs = [([0, 1], [1, 0]), (np.array([[0, 1], [1, 0]]),), np.array([True] * shape[0]),
                     np.ones(shape, dtype=bool), np.zeros(shape, dtype=bool), (slice(None), [0], [0]),
                     ([0], slice(None), [1]), np.int64(0), np.uint8(1), (np.int32(-1), Ellipsis),
                     'a', 1.5, {}, (slice(0, 2, 0),), (None, None, Ellipsis, None), ([True, False],),
                     (Ellipsis, Ellipsis), [[0, 0], [1, 1]], np.array([], dtype=int), (0,) * (len(shape) + 1),
                     np.array([True, False] * 8)[:shape[0] + 2], np.array([True, False] * 8)[:max(shape[0] - 1, 0)],
                     np.array([True] * shape[0] + [False, False]), (slice(None), np.array([True] * (shape[-1] + 1))),
                     [True, False] * 5, np.ones((shape[0] + 1,) + shape[1:], dtype=bool),
                     slice('a', None), (np.array([0]), np.array([True] + [False] * (shape[-1] - 1)) if len(shape) > 1 else 0)]
            for ix in exprs:
                n += 1
                try:
                    e = ref[ix]
                    ecls = None
                except Exception as ex:
                    e, ecls = None, type(ex).__name__
                try:
                    g = a[ix]
                    gcls = None
                except Exception as ex:
                    g, gcls = None, type(ex).__name__
                if ecls != gcls or (e is not None and (np.shape(e) != np.shape(g) or np.asarray(e).dtype != g.dtype
                                                       or np.asarray(e).tobytes() != g.tobytes())):
                    bad.append({'op': 'getitem (NumPy oracle)', 'shape': shape, 'idx': repr(ix)[:80],
                                'expected': ecls or list(np.shape(e)), 'got': gcls or list(np.shape(g))})
                if open_handles(os.path.join(str(a.path), 'arrayvalues.bin')):
                    bad.append({'op': 'getitem (NumPy oracle)', 'idx': repr(ix)[:80], 'expected': 'nothing left open',
                                'got': 'left open'})
    finally:
        shutil.rmtree(root, ignore_errors=True)
    return n, bad


def failed_ops(seed):
    """after a FAILED operation nothing of the array may stay open - also while
    the caller still holds the exception object (sys.last_exc in an interactive
    session does).  Run in a forked child: what a leaked map leads to (truncate,
    then read through the stale map) kills the interpreter."""
    import json
    import darr
    root = tempfile.mkdtemp(prefix='darrc12f_')
    r, w = os.pipe()
    pid = os.fork()
    if pid == 0:
        os.close(r)
        code = 0
        try:
            a = darr.asarray(os.path.join(root, 'a'), np.arange(600000, dtype='int64'), accessmode='r+',
                             metadata={'k': 1})
            darr.asarray(os.path.join(root, 'b'), [1, 2])
            ra = darr.asraggedarray(os.path.join(root, 'r'), [[1, 2], [3]])
            dp = os.path.join(root, 'a', 'arrayvalues.bin')
            held = []
            ops = [('copy to an existing path', lambda: a.copy(os.path.join(root, 'b'))),
                   ('asarray(existing path, Array)', lambda: darr.asarray(os.path.join(root, 'b'), a)),
                   ('copy with an unsupported dtype', lambda: a.copy(os.path.join(root, 'c'), dtype='bool')),
                   ('copy onto itself', lambda: a.copy(os.path.join(root, 'a'))),
                   ('index out of range', lambda: a[10 ** 7]),
                   ('assignment out of range', lambda: a.__setitem__(10 ** 7, 1)),
                   ('assignment of an unconvertible value', lambda: a.__setitem__(0, 'x')),
                   ('iterappend of a bad chunk', lambda: a.iterappend([[1], [[1, 2]]])),
                   ('append of an unconvertible chunk', lambda: a.append(['x'])),
                   ('truncate with a float', lambda: darr.truncate_array(a, 1.5)),
                   ('truncate beyond the end', lambda: darr.truncate_array(a, 10 ** 7)),
                   ('iterchunks with invalid parameters', lambda: list(a.iterchunks(chunklen=0))),
                   ('iterchunks abandoned after an exception in the consumer', lambda: _consume(a)),
                   ('metadata update with an unserialisable value', lambda: a.metadata.update({'k': object()})),
                   ('readcode of an unknown language', lambda: a.readcode('perl')),
                   ('archive with a bad compression type', lambda: a.archive(compressiontype='zip'))]
            def transient(name, action):
                # the description / data file is unreadable for a moment: the call fails while OPENING the array
                src = os.path.join(root, 'a', name)
                os.rename(src, src + '.away')
                try:
                    action()
                finally:
                    os.rename(src + '.away', src)
            ops += [('indexing while arraydescription.json is missing', lambda: transient('arraydescription.json', lambda: a[0])),
                    ('assignment while arraydescription.json is missing',
                     lambda: transient('arraydescription.json', lambda: a.__setitem__(0, 5))),
                    ('open_array() while arrayvalues.bin is missing',
                     lambda: transient('arrayvalues.bin', lambda: a.open_array().__enter__())),
                    ('iterchunks while arrayvalues.bin is missing',
                     lambda: transient('arrayvalues.bin', lambda: list(a.iterchunks(1000))))]
            for nm, fn in ops:
                try:
                    fn()
                    res = 'no exception'
                except Exception as e:
                    held.append(e)
                    res = type(e).__name__
                os.write(w, (json.dumps({'op': nm, 'raised': res, 'open': open_handles(dp)}) + '\n').encode())
            # after all those failures ordinary operations must still open and close the array properly
            for nm, fn in [('read after the failures', lambda: a[5]), ('slice after the failures', lambda: a[10:20]),
                           ('assignment after the failures', lambda: a.__setitem__(3, 3)),
                           ('context after the failures', lambda: _ctx(a))]:
                try:
                    fn()
                    res = 'ok'
                except Exception as e:
                    held.append(e)
                    res = type(e).__name__
                os.write(w, (json.dumps({'op': nm, 'raised': res, 'open': open_handles(dp), 'mustwork': True}) + '\n').encode())
            # what a leaked map leads to
            darr.truncate_array(a, 10)
            os.write(w, (json.dumps({'op': 'truncate after the failures', 'len': len(a)}) + '\n').encode())
            v = a[:]
            os.write(w, (json.dumps({'op': 'read after truncate', 'sum': int(v.sum()), 'n': int(len(v))}) + '\n').encode())
        except BaseException:
            os.write(w, (json.dumps({'op': 'harness', 'exception': traceback.format_exc()[-600:]}) + '\n').encode())
            code = 3
        os._exit(code)
    os.close(w)
    data = b''
    while True:
        ch = os.read(r, 65536)
        if not ch:
            break
        data += ch
    os.close(r)
    _, status = os.waitpid(pid, 0)
    shutil.rmtree(root, ignore_errors=True)
    import signal as _sg
    lines = [json.loads(x) for x in data.decode().splitlines() if x.strip()]
    bad = []
    for ln in lines:
        if ln.get('open'):
            bad.append({'op': 'failed operation: ' + ln['op'], 'expected': 'no descriptor or map left open',
                        'got': '%d left open (exception object still referenced)' % ln['open']})
        if 'exception' in ln:
            bad.append({'op': 'harness', 'expected': 'runs', 'got': ln['exception']})
        if ln.get('mustwork') and ln.get('raised') != 'ok':
            bad.append({'op': 'failed operation: ' + ln['op'], 'expected': 'works', 'got': ln['raised']})
    if os.WIFSIGNALED(status):
        bad.append({'op': 'truncate and read after a failed operation', 'expected': 'no crash',
                    'got': _sg.Signals(os.WTERMSIG(status)).name, 'last': lines[-1] if lines else None})
    elif not any(ln.get('op') == 'read after truncate' and ln.get('n') == 10 and ln.get('sum') == 45 for ln in lines):
        bad.append({'op': 'truncate and read after a failed operation', 'expected': 'a[:] = first ten values',
                    'got': lines[-1] if lines else None})
    return len(lines), bad


def _ctx(a):
    with a.open_array():
        a[1]


def _consume(a):
    for ch in a.iterchunks(chunklen=1000):
        raise RuntimeError('consumer fails')


def _shared_job(batch):
    from .. import shared
    try:
        return shared.replay_edges(_SH['g'], batch)
    except Exception:
        return [{'error': traceback.format_exc()}]


_SH = {}


def shared_handles(run, tier, seed):
    """reads and writes through SEVERAL live handles on one directory: spec/Shared.tla (every handle reads the
    current rows; what was written is in the raw file and seen by a fresh handle; lengths cached by stale handles)"""
    from .. import shared
    thorough = tier == 'thorough'
    # the named deviations must be real in the model
    for inv in ('NeverInconsistent', 'NeverPadded'):
        rv, _ = shared.run_instance('C12_shared_' + inv, invariants=[inv], dump=False, MaxRows=3, InitLens=[1], Modes2=['r+'])
        if rv.errors or not rv.violation:
            raise Machinery('Shared.tla: %s is not violated - the stale-handle behaviour is not in the model' % inv)
    unbounded_safe(run)
    r, g = shared.run_instance('C12_shared')
    tlc.must_pass(r, 'MC_C12_shared')
    tlc.check_coverage(r, ['H_Read', 'H_Append', 'H_Truncate', 'H_SetItem', 'H_Reopen'], 'MC_C12_shared')
    run.tlc('Shared', r)
    run.cov.setdefault('expected_model_violations', []).extend(['NeverInconsistent (StaleAppend)', 'NeverPadded (PadOnMap)'])
    rnd = random.Random(seed)
    groups = {}
    for src, es in g.edges.items():
        for (name, args, dst) in es:
            groups.setdefault((src, name, tuple(map(_freeze, args))), [name, args, []])[2].append(dst)
    keys = list(groups)
    rnd.shuffle(keys)
    # stratified: op x (handle up to date?) x (directory consistent?) x mode of the handle
    cap = 400 if thorough else 22
    seen, jobs = {}, []
    from ..concretize import NUMTYPES, BYTEORDERS
    for k in keys:
        src = k[0]
        st = g.nodes[src]
        name, args, dsts = groups[k]
        hl, md = shared._fmap(st['hlen']), shared._fmap(st['mode'])
        h = args[0]
        cls = (name, hl[h] == st['dlen'], st['dlen'] == len(st['rows']), md[h], hl[h] == 0,
               args[1] if name in ('H_Truncate', 'H_Reopen') else None)
        if seen.get(cls, 0) >= cap:
            continue
        seen[cls] = seen.get(cls, 0) + 1
        j = len(jobs) + seed
        ckey = (NUMTYPES[j % 13], BYTEORDERS[(j // 13) % 2], [(), (2,), (3, 2)][(j // 5) % 3], 1 + (j // 7) % 3)
        jobs.append((src, name, args, dsts, ckey))
    _SH['g'] = g
    batches = [jobs[i:i + 20] for i in range(0, len(jobs), 20)]
    res = []
    with mp.get_context('fork').Pool(16) as pool:
        for x in pool.imap_unordered(_shared_job, batches):
            res.extend(x)
    for x in res:
        if 'error' in x:
            raise Machinery('shared-handle replay failed: ' + x['error'])
        run.add('shared_handle_edge_replays')
        if x['mism']:
            st = x['src']
            stale = shared._fmap(st['hlen'])[x['args'][0]] != st['dlen']
            run.violation('C12|shared|%s|%s|%s' % (x['name'], 'stale handle' if stale else 'up-to-date handle', x['mism'][0][0]),
                          {'state': st, 'call': [x['name'], x['args']], 'mismatch': x['mism'], 'out': x['out'], 'exc': x['exc'],
                           'config': x['cfg']}, {'kind': 'shared-edge', 'state': st, 'call': [x['name'], x['args']]})
    run.add('shared_handle_edge_classes', len(seen))
    run.add('traces_validated_against_impl', len(res))


def unbounded_safe(run):
    """Apalache: `no call through a stale handle => description and file agree` as an inductive invariant
    (spec/apalache/SharedInd.tla: any row values, lengths and indices; sequences up to the Gen bound), and the
    control that a broken append is rejected; TLC: the closed forms it uses equal the PySlice operators"""
    import subprocess
    import re
    spec = os.path.join(os.path.dirname(os.path.dirname(os.path.dirname(os.path.abspath(__file__)))), 'spec')
    wd = tempfile.mkdtemp(prefix='darrapa_')
    try:
        for f in ('SharedInd.tla', 'ClosedForms.tla'):
            shutil.copy(os.path.join(spec, 'apalache', f), wd)
        shutil.copy(os.path.join(spec, 'PySlice.tla'), wd)
        rc = tlc.run('ClosedForms', 'INIT Init\nNEXT Next\n', wd=wd, workers=1, coverage=False, timeout=300)
        if rc.errors or rc.violation:
            raise Machinery('closed forms of SharedInd.tla differ from PySlice: %s' % (rc.errors[:2],))
        text = open(os.path.join(wd, 'SharedInd.tla')).read()
        bad = text.replace("dlen' = hlen[h] + Len(c) /\\", "dlen' = hlen[h] + Len(c) + 1 /\\").replace('MODULE SharedInd', 'MODULE SharedIndBad')
        if bad.count('+ 1 /') != 1:
            raise Machinery('control mutation of SharedInd.tla did not apply')
        with open(os.path.join(wd, 'SharedIndBad.tla'), 'w') as f:
            f.write(bad)
        res = {}
        for mod in ('SharedInd', 'SharedIndBad'):
            try:
                p = subprocess.run(['apalache-mc', 'check', '--init=IndInit', '--inv=IndInv', '--length=1',
                                    '--out-dir=' + os.path.join(wd, 'out'), mod + '.tla'], cwd=wd, stdout=subprocess.PIPE,
                                   stderr=subprocess.STDOUT, text=True, timeout=900,
                                   env=dict(os.environ, JVM_ARGS='-Djava.io.tmpdir=' + wd, TMPDIR=wd))
            except FileNotFoundError:
                run.assumptions.append('apalache-mc not available: the unbounded inductive check of Shared.Safe was skipped')
                return
            m = re.search(r'The outcome is: (\w+)', p.stdout)
            res[mod] = m.group(1) if m else 'unknown: ' + p.stdout[-300:]
        if res['SharedInd'] != 'NoError':
            raise Machinery('Apalache: the inductive step of Shared.Safe fails: %s' % res['SharedInd'])
        if res['SharedIndBad'] != 'Error':
            raise Machinery('Apalache control: a broken append was not rejected (%s)' % res['SharedIndBad'])
        run.cov['apalache'] = {'SharedInd IndInv (inductive, length 1)': 'NoError', 'control SharedIndBad': 'Error'}
        run.add('apalache_inductive_checks', 2)
    finally:
        shutil.rmtree(wd, ignore_errors=True)


def _freeze(x):
    if isinstance(x, (list, tuple)):
        return tuple(_freeze(y) for y in x)
    if isinstance(x, dict):
        return tuple(sorted((k, _freeze(v)) for k, v in x.items()))
    return x


def run(tier, seed):
    run = Run('C12', tier, seed, 'model_checking')
    thorough = tier == 'thorough'
    tables = [('Rows({<<3>>, <<0>>, <<2,3>>, <<3,2,2>>, <<0,2>>}, Items, 0..2)', 'a')]
    if thorough:
        tables.append(('Rows({<<3,2,2>>, <<2,3>>, <<0,2>>}, Items, 3..3)', 'b'))
    else:
        tables.append(('Rows({<<3,2,2>>}, {I(-1), I(1), S(NoneV,NoneV,-1), S(1,NoneV,NoneV), Ell, New, L(<<1,0>>), '
                       'M(<<TRUE,FALSE,TRUE>>), M(<<TRUE,TRUE>>), I(3)}, 3..3)', 'b'))
    rows = []
    for expr, nm in tables:
        r = tlc.table('Indexing', expr, defs=ITEMS, name='idx' + nm, heap='8g', timeout=1500)
        rows.extend(r.rows)
    run.add('states', len(rows))
    run.add('transitions', len(rows))
    jobs = [(rows[i:i + 150], seed, i) for i in range(0, len(rows), 150)]
    results = []
    with mp.get_context('fork').Pool(16) as pool:
        for x in pool.imap_unordered(_job, jobs):
            results.append(x)
    for res in results:
        run.add('evaluations', res['ran'])
        run.add('reads', res['reads'])
        run.add('writes', res['writes'])
        run.add('indexerror_rows', res['errors'])
        run.add('detachment_checks', res['detach'])
        for b in res['bad']:
            sig = 'C12|%s|%s' % (b['op'], 'leak' if 'left open' in str(b.get('got')) else
                                 ('error' if 'err' in str(b.get('expected')) else 'value'))
            run.violation(sig, b, {'kind': 'indexing', 'case': b})
    n, bad = failed_ops(seed)
    run.add('failed_operation_probes', n)
    for b in bad:
        run.violation('C12|failed-op|%s' % ('crash' if 'crash' in str(b['expected']) else 'leak'), b,
                      {'kind': 'failed-ops', 'case': b})
    n, bad = numpy_oracle(seed)
    run.add('numpy_oracle_cases_not_spec_decided', n)
    for b in bad:
        run.violation('C12|numpy-oracle|%s' % b['op'], b, {'kind': 'indexing-oracle', 'case': b})
    shared_handles(run, tier, seed)
    run.cov['distinct_nontrivial'] = len(rows)
    run.add('traces_validated_against_impl', len(rows))
    run.cov['exhaustive'] = True
    for row in rows[700:703]:
        run.sample(row)
    run.cov['rule'] = ('rows = every index tuple (up to the stated length, at most one advanced index) over 23 items x '
                       'shapes incl. empty first axes, meaning evaluated by TLC from spec/Indexing.tla; real a[idx] outside '
                       'and inside open_array(), a[idx]=scalar / shaped value followed by raw file + fresh handle, '
                       'detachment of results (owndata, survive overwrite/truncate/delete), /proc/self/fd and maps after '
                       'every call; other index forms judged by NumPy on the reference array')
    run.assumptions += ['index forms outside the modelled grammar are judged by NumPy, as the property states']
    return run.finish()
