from . import arrayhist, raggedhist
from ..common import Run


def run(tier, seed):
    run = Run('C11', tier, seed, 'model_checking')
    for family in ('data', 'meta', 'ctx'):
        arrayhist.run_family(run, 'C11', tier, seed, family)
    run.cov['rule'] = ('Array: every mutating macro-edge leaving a mode-r state of the TLC graph of spec/Array.tla is '
                       'executed with a recursive byte snapshot before/after; paths r-call, SetMode(r+), same call.')
    return raggedhist.run_check('C11', tier, seed, 'data+ctx', run=run)
