from . import arrayhist


def run(tier, seed):
    return arrayhist.run_check('C11', tier, seed, 'data+meta')
