#!/bin/sh
# offline setup: parse every specification with SANY, check the tools
set -e
cd "$(dirname "$0")/.."
command -v java >/dev/null
test -x /venv/bin/python
W=$(mktemp -d)
cp spec/*.tla "$W"/
cd "$W"
for f in *.tla; do
  java -cp /opt/veriftools/tla/tla2tools.jar:/opt/veriftools/tla/CommunityModules-deps.jar tla2sany.SANY "$f" > "$f.log" 2>&1 || { cat "$f.log"; rm -rf "$W"; exit 1; }
  if grep -q "Fatal errors\|\*\*\* Errors" "$f.log"; then cat "$f.log"; rm -rf "$W"; exit 1; fi
done
rm -rf "$W"
PYTHONPATH=/repo /venv/bin/python -c "import darr, numpy; assert darr.__file__.startswith('/repo/')"
echo setup ok
