#!/bin/sh
# run the quick check of every seeded change's property against it (scratch worktrees; /repo untouched)
# usage: tools/detect_all.sh [parallelism] [pattern]
cd "$(dirname "$0")/.."
P=${1:-2}
PAT=${2:-.}
ls seeded | grep -E "$PAT" | xargs -P "$P" -I{} sh -c './tools/seeded.py detect {} 2>&1 | tail -1' 
