#!/venv/bin/python
"""Regenerate /verif/MANIFEST.json from the table below."""
import json, os
HERE = os.path.dirname(os.path.dirname(os.path.abspath(__file__)))
MC = 'model_checking'
TABLE = {
 'C02': (MC, 'TLC graph walk (spec/Array.tla) + independent file decoder',
         'Every public call from every quiescent state of the bounded TLC model of an Array directory (append/iterappend/truncate/assignment/mode/reopen/metadata) is executed on the real code; after each call a decoder that shares no code with Darr (harness/disk.py: json + raw bytes + own type table) must reconstruct exactly the descriptor, length and row bytes the spec state has and the dtype/shape/bytes the Darr API reports. TLC checks WellFormedArray in every state of the model.',
         'Trusted: TLC, the TLA+ value parser, NumPy as reference for casts, darr.asarray for materialising source states. Bounds: see evidence tlc_instances.', '7 C02'),
 'C03': (MC, 'TLC graph walk + path replay (spec/Array.tla)',
         'The TLC state graph of the step-level Array model is replayed into darr.Array: every macro-edge once per configuration slot (13 types x 2 byte orders x ranks x input forms rotate), plus random and (thorough) bounded-exhaustive paths without re-materialisation; disk rows, cached handle state, a[:] and a fresh handle are compared with the spec target after every call. TLC checks Model_Array, AppendKeepsPrefix, TruncKeepsPrefix on the model.',
         'Trusted: TLC, parser, NumPy reference cast. Exhaustive only within the instance constants (MaxRows 3/4, 2 row ids, <=2 chunks of <=2 rows, truncate index -4..4).', '7 C03'),
 'C08': (MC, 'TLC graph walk (spec/Array.tla, spec/Ragged.tla) README stamp + regeneration',
         'After every replayed call the README bytes must equal the text Darr generates from a fresh handle, and the parsed facts (type, byte order, dimensions, metadata sentence) must equal the spec README stamp; TLC checks Readme_Current in every quiescent state of the model.',
         'Trusted: as C03; README parsing by regular expressions on the format description lines.', '7 C08'),
 'C11': (MC, 'TLC graph walk with byte snapshots (spec/Array.tla ReadOnly)',
         'TLC checks the action property ReadOnly on the model; every mutating macro-edge leaving a mode-r state (incl. delete and metadata ops, empty and non-empty arrays, r obtained at creation / by assignment / by reopen) is executed with a recursive byte snapshot before and after, and the same call is repeated after switching to r+ (paths r-call, SetMode, r+-call).',
         'Trusted: as C03.', '7 C11'),
 'C13': (MC, 'TLC graph walk (metadata actions of spec/Array.tla)',
         'All metadata macro-edges (update, setitem, empty update, unserialisable update, pop, pop-with-default, popitem, del) from all reachable metadata states over 2 keys x 2 values are executed with rotating concrete value kinds (ints, floats incl. NaN/inf, non-ASCII and control-character text, None/bool, nested, NumPy scalars and arrays, bytes); file existence/content, every read accessor on live and fresh handles, outcome classes are compared with the spec; TLC checks Meta_Model.',
         'Trusted: as C03; JSON round trip of model values computed with the standard json module and an independent NumPy conversion.', '7 C13'),
 'C09': (MC, 'TLC graph walk with real faults (spec/Array.tla, Faults)',
         'TLC checks FailedAppendExact/WellFormedArray/Model_Array on the step-level model with a fault plan chosen at every append (iterable raises, wrong shape, wrong rank, unconvertible item at every position; write stops after k rows + b bytes). Every fault macro-edge is executed on the real code: crafted iterables, and kernel-enforced short writes (RLIMIT_FSIZE with SIGXFSZ ignored, 64 KiB rows so that only the data file hits the limit); afterwards disk, live handle and fresh handle must equal the spec target (original + completed chunks).',
         'Trusted: kernel RLIMIT_FSIZE semantics; write faults at offset 0 of an empty file cannot be isolated from the JSON/README writes and are counted as skipped.', '7 C09'),
 'C17': (MC, 'TLC CrashSafe + settrace crash points and torn variants opened by the real code',
         'TLC checks CrashSafe with a crash enabled after every file-system step (incl. inside data writes and the recovery path, torn JSON/README/metadata). Each scenario (macro-edge) runs on the real code under sys.settrace; every distinct on-disk state between two executed lines in darr/ plus synthesized torn variants of every changed file are opened with the real darr: the result must raise or be in the legit set the spec computed for that call; the observed sequence of disk states must be a subsequence of the spec step chain (binds the write order).',
         'Crash = process death (written bytes persist); line granularity of sys.settrace; legit sets come from spec pc.legit / pc.legitmeta.', '7 C17'),
 'C18': (MC, 'TLC-evaluated verdict table (spec/OpenCheck.tla) replayed on materialised directories',
         'TLC enumerates every single-field corruption class x file-length offset x array kind and evaluates the spec verdict (Raises/Opens/Any); each row is materialised with several concrete representatives (rotating over the 13 types and both byte orders) and opened with Array(), Array(r+), darr.open(), RaggedArray(); rejected rows are also passed to delete/truncate by path with a byte snapshot around the call.',
         'Only "Raises" verdicts are enforced; ambiguities listed in DESIGN section 9 are verdict Any.', '7 C18'),
 'C04': (MC, 'TLC graph walk + path replay (spec/Ragged.tla, spec/RaggedObs.tla)',
         'The TLC state graph of the step-level ragged model is replayed into darr.RaggedArray (create_raggedarray / asraggedarray starts, append, iterappend, truncate_raggedarray, mode, reopen): every macro-edge, plus random paths; after each call len/narrays/atom/dtype/size, every subarray, ra[k] for every k around the valid range (IndexError/TypeError classes), iter_arrays over TLC-evaluated (start,end,step) cases, and the stored index type are compared on the live and a fresh handle. Configurations rotate over 13 value types x 2 byte orders x 5 atom shapes x 7 index types x item forms.',
         'Trusted: TLC, parser, NumPy as reference for np.asarray(item, dtype). Bounds in evidence.', '7 C04'),
 'C05': (MC, 'TLC graph walk (spec/Ragged.tla WellFormedRagged) + independent decoder',
         'Same walk as C04 but the observables are the files: values/ and indices/ decoded without Darr (json + struct), index contiguity (first start 0, start<=end, start=previous end, last end=N), integer index type, top-level len/size/atom/numtype/darrobject, and subarray k re-derived as values[start_k:end_k] from the raw files must equal the spec state.',
         'Trusted: as C04.', '7 C05'),
 'C10': (MC, 'TLC graph walk with real faults (spec/Ragged.tla, Faults, IdxMax)',
         'TLC checks FailedAppendExact/WellFormedRagged with fault plans (iterable raises, wrong atom, wrong rank, unconvertible item at every position; values write stops after k rows + b bytes; index write refused after 0 or half a row) and with index overflow decided by the state (IdxMax). Each fault macro-edge is executed on the real code: crafted iterables, RLIMIT_FSIZE armed right before the failing item and lifted by the SIGXFSZ handler, int8/uint8 index types with blocks of 40/80 rows so that the model bound is the type bound.',
         'Index-file write faults can only be isolated when the values file is shorter than the index file (others are counted as skipped). Quick tier samples macro-edges per edge class when the graph is large.', '7 C10'),
 'C12': (MC, 'TLC-evaluated index semantics (spec/Indexing.tla) + lifecycle observation',
         'TLC evaluates GetItem(shape, idx) - result shape and selected flat positions or IndexError - for every index tuple over 23 items (ints incl. negative/out of range, slices with steps/reversed/empty/out of range, Ellipsis, None, one integer list, one boolean mask; wrong arity) x shapes incl. empty first axes; the real a[idx] (outside and inside open_array()), a[idx]=scalar and shaped values (then raw file + fresh handle), detachment (owndata, no base, unchanged after the file is overwritten/truncated/deleted) and /proc/self/fd + /proc/self/maps after every call, successful or failed, are compared. Index forms outside the grammar are judged by NumPy on a reference array and counted separately.',
         'The Indexing operators were validated against NumPy itself on 21k cases while building; element values are those of NumPy (reference named by the property).', '7 C12'),
 'C14': (MC, 'TLC-checked frame arithmetic + exhaustive table (spec/Frames.tla)',
         'TLC proves for all parameters up to N+1 that the declarative frame definition of the property equals the arithmetic of iterindices/fit_frames (DeclEqAlg) and that step=chunklen with remainder tiles [start,end) (ChunksConcatenate), and writes the expected result of every (n, chunklen, stepsize|None, start|None, end|None, remainder) tuple incl. invalid ones; real iterindices, iterchunks (bytes, dtype, detachment, concatenation) and fit_frames (ints, integral floats, non-integral floats) are compared row by row, plus random large tuples evaluated by the same TLC operators.',
         'Exhaustive for n <= N (6 quick, 9 thorough); larger values sampled.', '7 C14'),
 'C19': (MC, 'TLC model of the shared memory map (spec/Mmap.tla); schedules replayed in forked children',
         'TLC checks NoUseAfterUnmap, HoldersMapped, NoLeak, OneMap over all interleavings of 3 generators (different chunk parameters), 2 nested contexts, element reads and writes, and shows that the pinned owner-closes algorithm violates them. Behaviours of the graph are executed on the real Array (3 MiB) each in its own forked child: exit status / terminating signal, every yielded chunk and read element vs the spec, and /proc/self/fd + maps after completion.',
         'Memory safety is observed, not proved. Quick: every schedule up to length 3 + 2500 edge-covering + 300 random long schedules.', '7 C19'),
 'C01': (MC, 'TLC-checked chunking algebra (spec/Create.tla) + configuration product against the NumPy reference',
         'TLC checks ChunkInvariance (the stored row order is the identity for every input form, n and chunklen, through the chunkers of _archunkgenerator, iterchunks and _fillgenerator) and writes one row per (form, n, chunklen, supported element type); each row is executed with rotating configurations (13 types, both byte orders, C/F/strided/negative-stride/transposed/broadcast layouts, ranks 1-4 with length-1 axes, dtype argument None or any type, later iterator chunks in another byte order, special values) and compared as bit patterns, through the returned handle, a fresh handle and the independent file reader, with np.asarray(x) cast to dtype; unsupported element types must raise TypeError with nothing created.',
         'NumPy is the reference for element values, as the property says; casts whose result C leaves undefined (NaN/inf to integer) are not exercised.', '7 C01'),
 'C15': (MC, 'TLC graph walk of a two-directory model (spec/Copy.tla) + archive table (spec/Archive.tla)',
         'TLC checks Independent and Faithful on the source/copy model; paths of its graph (copy with dtype None or a target type, chunklen None/1/2, sources of length 0-2 with/without metadata, then append/truncate/assign/metadata/delete on either side) are replayed on Arrays and RaggedArrays (zero-length subarrays, ragged arrays without subarrays) and both directories re-read after every step; every archive case (kind x xz/gz/bz2 x overwrite x pre-existing archive x given path) is extracted with tarfile, compared byte for byte with the directory and reopened.',
         'NumPy reference for astype; target types rotate over the 13 types x 2 byte orders.', '7 C15'),
 'C16': (MC, 'TLC-evaluated verdict tables (spec/DirTree.tla) replayed on materialised trees',
         'TLC enumerates every delete case (delete_array / delete_raggedarray x target kind x foreign content kind incl. symlinks and names colliding with Darr file names x location top/values/indices x object/str/Path) and every creation case (asarray, create_array, asraggedarray, create_raggedarray, Array.copy, RaggedArray.copy, archive x previous occupant x overwrite x str/Path) with the verdict the property demands; each is materialised and executed with recursive byte snapshots of the path, its parent and the symlink targets; exception class, survival of foreign entries, nothing-remains-after-delete and read-back of the new occupant are compared.',
         'Finite enumeration, complete in both tiers.', '7 C16'),
 'C20': (MC, 'TLC-evaluated path-spelling semantics (spec/DirTree.tla Lex/OsOk/Protected) replayed on DataDir',
         'TLC enumerates spellings (sequences of ., .., empty component, protected name, sub-directory, file in a sub-directory, user file, missing name, own directory name) and evaluates the lexical target, whether the OS can walk it, and the verdict Refused / OsError / Allowed; every row x 12 public writers (write_txt, write_jsonfile, write_jsondict, update_jsondict, delete_files, open_file in 7 modes) x str / Path / absolute form x overwrite is executed with a recursive byte snapshot; user-file effects follow the TLC table EffectRows; plus write/read round trips of unicode JSON dicts and text.',
         'Spellings up to 3 components quick / 4 thorough; symlinked user files are outside the property.', '7 C20'),
 'C06': (MC, 'strict front ends -> read plans judged by TLC (spec/ReadCode.tla) + execution of the Python family',
         'Every generated program (13 types x 2 byte orders x ranks 1-4 with distinct extents and length-1 axes x 12 languages x 3 path modes) is produced by the real readcode(); foreign-language snippets must be accepted by a strict per-language front end (anything else is not well-formed) and the resulting read plan is judged by TLC: element kind/size from the language type token, byte order token, element count, dimensions (as stored for row-major, reversed for column-major, per-language singleton rules), file offset of every index tuple, complex part layout. Offered/withheld is compared with the TLC table OfferedRows (docs/readcode.rst) and with readcodelanguages; the path in the code with the requested mode. darr/numpy/numpymemmap/python snippets are executed in a subprocess and compared element-wise, with per-snippet file hashes before/after, also for empty arrays.',
         'No foreign interpreter exists in the sandbox: the language semantics in spec/ReadCode.tla are a transcription of the documentation (trusted); well-formed means accepted by the front end.', '7 C06'),
 'C07': (MC, 'strict ragged front ends -> ragged plans judged by TLC for every k (spec/RaggedReadCode.tla) + execution of darr/numpymemmap',
         'Each ragged program (9 languages x 13 value types x 7 index types x atom rank 0-3 x layouts with 1, 2, 3, many subarrays incl. zero-length ones) is parsed into index-array plan, values plan, accessor (index origin, axis carrying k, start/end adjustments, end inclusiveness, placeholders, empty-subarray guard and its dimensions) and example (ordinal, k, binding operator); TLC evaluates RaggedFail: both array plans Correct (C06 semantics), Select = exactly subarray k for every k under the language range semantics (what lo:hi means when lo = hi+1), placeholders = atom rank on the right side, empty-value dimensions = atom in the language axis order, example binds the announced existing subarray with a binding operator of that language; offered/withheld against RaggedOfferedRows (incl. the R int64-index allowance); darr and numpymemmap programs are executed for every k with file hashes before/after, also on ragged arrays without values.',
         'Language range semantics and type tables are transcriptions (trusted); no foreign interpreter available.', '7 C07'),
}
NA = {}
# what later rounds added to each check (appended to the level text)
ADD = {
 'C01': ' Also: which rows decide the stored element type (TypeRows; TLC must find the per-slice typing of the pinned tree chunklen-dependent), chunklen as NumPy integers (refusal or the int behaviour, never a wrong array).',
 'C02': ' Random histories recorded from the real code (incl. the repository tests in the thorough tier) are validated by TLC against spec/TraceArray.tla; the same TLC paths are replayed in a child interpreter with an ASCII default encoding.',
 'C03': ' Also inside open_array() contexts / with suspended generators (cx in Array.tla), integer arguments in NumPy forms with alternative explanations, code->spec validation by TLC of random histories (with contexts) and of the repository tests (TraceArray.tla).',
 'C04': ' Code->spec validation of random ragged histories by TLC (TraceRagged.tla); thorough: also inside open_arrays() contexts (uctx in Ragged.tla).',
 'C05': ' Also the overflow family (index type bound = model bound) and operations inside open_arrays() contexts / suspended iter_arrays generators (uctx); TLC-validated random histories; ASCII-locale child replay.',
 'C06': ' Content is also reached through histories on one handle with code generated in between; relative-path arrays across chdir for abspath; squeeze()/matrix() result dimensions of the Scilab complex code.',
 'C07': ' Also: arithmetic in the integer class of the index file (ClassAdd: Matlab saturates, Scilab wraps) with value counts at the maximum of narrow index types; content reached through histories with code generated in between.',
 'C08': ' TLC-validated random histories; thorough: repository tests as traces and the ragged README inside user contexts (stale listing modelled, outside the property).',
 'C09': ' The raise fault rotates Exception / KeyboardInterrupt / BaseException classes; TLC-validated random histories with faults; ASCII-locale child replay.',
 'C10': ' The raise fault rotates Exception / KeyboardInterrupt / BaseException classes; ASCII-locale child replay (default text encoding); TLC-validated random histories.',
 'C11': ' Also inside open_array() contexts, where the spec says what the open map allows (WriteThroughOpenMap is modelled; ReadOnlyAlways must be violated in the model). RaggedArray: also the ctx family of spec/Ragged.tla (uctx): a handle switched to r while an r+ context or a suspended iter_arrays generator still holds writeable maps must refuse append / truncate.',
 'C12': ' Several live handles on one directory: every state of spec/Shared.tla (also inconsistent ones) is materialised and a stratified sample of its edges executed; TLC checks Safe/ViewIsPrefix/ReadsCurrent and that the named deviations are real.',
 'C13': ' Multi-key updates (updateall), rotating unserialisable kinds (incl. undecodable bytes), the same edges on RaggedArrays, creation-time table (spec/MetaCreate.tla), TLC-validated random histories and the repository metadata tests as traces. Value pairs that Python calls equal but JSON distinguishes (1/True, False/0, 2/2.0, 5/[5]) are among the rotating value sets: replacing one by the other is a change.',
 'C14': ' Chunk parameters also as NumPy integers of several widths (refusal or the int behaviour).',
 'C16': ' Call form staleobject: a handle whose directory was deleted and re-created as something else.',
 'C17': ' open() audit events tell in-place rewrites from truncating ones (overlay torn variants); metadata value pairs of equal text length; multi-key updates; crash states opened r and r+.',
 'C19': ' Generators and contexts are started with accessmode None / r / r+ (cmode in Mmap.tla: the first user decides the mode of the shared map; MapStable: a map that users hold is never exchanged).',
 'C18': ' Paths also spelled through a symbolic link and .. with a valid decoy at the lexically simplified place.',
 'C20': ' Round trips go through read_txt/read_jsondict, with carriage returns, and are repeated in a child interpreter with an ASCII default encoding; the worker has created and deleted arrays before. spec/UserFiles.tla: the namespace of a DataDir as a state machine (write_txt/write_jsondict/write_jsonfile, update_jsondict, delete_files with lists, open_file append, DataDir.copy, sha256checksums; TLC checks ProtectedNeverChanges, RefusalChangesNothing, OnlyNamed, CopyFaithful, CopyIndependent and a vacuity control), its graph replayed edge by edge with the user files decoded independently and a byte snapshot of every protected file after each call.',
}
def main():
    props = [json.loads(l)['id'] for l in open(os.path.join(HERE, 'properties.jsonl'))]
    checks = []
    na = []
    for p in props:
        if p in TABLE:
            lvl, tech, text, note, ref = TABLE[p]
            text = text + ADD.get(p, '')
            checks.append({'property_id': p, 'quick_cmd': './check %s --tier quick' % p,
                           'thorough_cmd': './check %s --tier thorough' % p,
                           'evidence_file': 'evidence/%s.json' % p,
                           'replay_cmd_template': './check %s --replay {path}' % p,
                           'engine': 'tlc+harness',
                           'level_claimed': {'category': lvl, 'text': text, 'design_ref': 'DESIGN.md section ' + ref},
                           'level_note': note, 'technique': tech})
        else:
            na.append({'property_id': p, 'reason': NA.get(p, 'check not built yet (work in progress; see DESIGN.md section 12 for the order of work)')})
    m = {'version': 1,
         'setup_cmd': './tools/setup.sh',
         'hooks': {'guard': 'DARR_VERIF', 'enable': 'no hooks are compiled into /repo; checks import darr from /repo\'s working tree (PYTHONPATH=/repo)',
                   'baseline_off_cmd': 'cd /repo && /venv/bin/python -m pytest -q -p no:cacheprovider --timeout=900 darr',
                   'source_commits': [], 'add_only': True},
         'engines': [{'name': 'tlc+harness', 'path': 'harness/', 'serves_properties': sorted(TABLE),
                      'kind_free_text': 'TLA+ specifications in spec/ checked with TLC; state graphs, simulation traces and TLC-evaluated oracle tables replayed into the real code, recorded executions validated by TLC'}],
         'checks': checks, 'not_applicable': na,
         'notes': 'See DESIGN.md. Known findings: KNOWN_FINDINGS.jsonl.'}
    json.dump(m, open(os.path.join(HERE, 'MANIFEST.json'), 'w'), indent=1)
main()
