#!/venv/bin/python
"""Seeded changes (/verif/seeded/<id>/): confirm them in a scratch worktree and
run the registered checks against them.

  seeded.py import <id> <worktree dir> <property>   copy patch.diff/demo.py/meta.txt from an agent's worktree
  seeded.py confirm <id>       scratch worktree: tests pass with the change, demo fails with it, passes without
  seeded.py detect <id> [Cxx ...]   apply to /repo, run the quick checks, ALWAYS undo; prints which checks alarm
"""
import json
import os
import shutil
import subprocess
import sys
import tempfile
import time

VERIF = os.path.dirname(os.path.dirname(os.path.abspath(__file__)))
SEEDED = os.path.join(VERIF, 'seeded')
PY = '/venv/bin/python'


def sh(cmd, cwd=None, env=None, timeout=3600):
    e = dict(os.environ)
    if env:
        e.update(env)
    p = subprocess.run(cmd, shell=True, cwd=cwd, env=e, stdout=subprocess.PIPE, stderr=subprocess.STDOUT, text=True,
                       timeout=timeout)
    return p.returncode, p.stdout


def cmd_import(sid, wt, prop):
    d = os.path.join(SEEDED, sid)
    os.makedirs(d, exist_ok=True)
    rc, diff = sh('git -C %s diff -- darr' % wt)
    with open(os.path.join(d, 'patch.diff'), 'w') as f:
        f.write(diff)
    demo = open(os.path.join(wt, 'demo.py')).read().replace(wt, '${WT}')
    with open(os.path.join(d, 'demo.py'), 'w') as f:
        f.write(demo)
    note = open(os.path.join(wt, 'meta.txt')).read() if os.path.exists(os.path.join(wt, 'meta.txt')) else ''
    meta = {'id': sid, 'property': prop, 'needs': note.strip(), 'confirmed': None, 'detected_by': None}
    json.dump(meta, open(os.path.join(d, 'meta.json'), 'w'), indent=1)
    print('imported', sid, len(diff.splitlines()), 'diff lines')


def cmd_confirm(sid):
    d = os.path.join(SEEDED, sid)
    meta = json.load(open(os.path.join(d, 'meta.json')))
    wt = tempfile.mkdtemp(prefix='seedwt_')
    os.rmdir(wt)
    res = {}
    try:
        rc, out = sh('git -C /repo worktree add -q --detach %s HEAD' % wt)
        if rc:
            raise SystemExit(out)
        demo = os.path.join(wt, '_demo.py')
        with open(demo, 'w') as f:
            f.write(open(os.path.join(d, 'demo.py')).read().replace('${WT}', wt))
        env = {'PYTHONPATH': wt}
        rc0, out0 = sh('%s -W ignore %s' % (PY, demo), cwd=wt, env=env, timeout=900)
        res['demo_without_change'] = rc0
        rc, out = sh('git -C %s apply %s' % (wt, os.path.join(d, 'patch.diff')))
        if rc:
            raise SystemExit('patch does not apply: ' + out)
        rc1, out1 = sh('%s -W ignore %s' % (PY, demo), cwd=wt, env=env, timeout=900)
        res['demo_with_change'] = rc1
        rct, outt = sh('%s -m pytest -q -p no:cacheprovider --timeout=900 darr' % PY, cwd=wt, env=env, timeout=1800)
        res['tests_with_change'] = outt.strip().splitlines()[-1] if outt.strip() else str(rct)
        res['tests_rc'] = rct
        ok = rc0 == 0 and rc1 != 0 and rct == 0
        res['ok'] = ok
        if not ok:
            print(out0[-800:], '\n----\n', out1[-800:], '\n----\n', outt[-800:])
    finally:
        sh('git -C /repo worktree remove --force %s' % wt)
        shutil.rmtree(wt, ignore_errors=True)
    meta['confirmed'] = res
    meta['ran'] = ['demo.py without the change (exit %s)' % res.get('demo_without_change'),
                   'demo.py with the change (exit %s)' % res.get('demo_with_change'),
                   'repository test suite with the change: %s' % res.get('tests_with_change')]
    json.dump(meta, open(os.path.join(d, 'meta.json'), 'w'), indent=1)
    print(sid, json.dumps(res))
    return res.get('ok')


def cmd_detect(sid, checks):
    """run the quick checks against the change, applied in a scratch worktree (VERIF_REPO), never in /repo"""
    d = os.path.join(SEEDED, sid)
    meta = json.load(open(os.path.join(d, 'meta.json')))
    checks = checks or [meta['property']]
    wt = tempfile.mkdtemp(prefix='seeddet_')
    os.rmdir(wt)
    rc, out = sh('git -C /repo worktree add -q --detach %s HEAD' % wt)
    if rc:
        raise SystemExit(out)
    results = {}
    evid = tempfile.mkdtemp(prefix='seedevid_')
    try:
        rc, out = sh('git -C %s apply %s' % (wt, os.path.join(d, 'patch.diff')))
        if rc:
            raise SystemExit('patch does not apply: ' + out)
        for c in checks:
            t = time.time()
            ev = os.path.join(VERIF, 'evidence', c + '.json')
            keep = os.path.join(evid, c + '.json')
            if os.path.exists(ev):
                shutil.copy(ev, keep)
            rc, out = sh('./check %s --tier quick' % c, cwd=VERIF, env={'VERIF_REPO': wt}, timeout=3600)
            if os.path.exists(keep):
                shutil.copy(keep, ev)       # evidence files must come from runs against /repo itself
            viol = [ln for ln in out.splitlines() if ln.startswith('VIOLATION')]
            sigs = [ln.strip() for ln in out.splitlines() if ln.strip().startswith('signature:')]
            results[c] = {'exit': rc, 'violations': len(viol), 'signatures': sigs[:4], 'wall_s': round(time.time() - t, 1)}
            print(sid, c, 'exit', rc, len(viol), 'violation lines', sigs[:2])
    finally:
        sh('git -C /repo worktree remove --force %s' % wt)
        shutil.rmtree(wt, ignore_errors=True)
        shutil.rmtree(evid, ignore_errors=True)
    meta.setdefault('detection', {}).update(results)
    meta['detected_by'] = sorted(c for c, r in meta['detection'].items() if r['exit'] == 1)
    json.dump(meta, open(os.path.join(d, 'meta.json'), 'w'), indent=1)
    return results


if __name__ == '__main__':
    a = sys.argv[1:]
    if a[0] == 'import':
        cmd_import(a[1], a[2], a[3])
    elif a[0] == 'confirm':
        sys.exit(0 if cmd_confirm(a[1]) else 1)
    elif a[0] == 'detect':
        cmd_detect(a[1], a[2:])
